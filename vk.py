#!/usr/bin/env python3
"""vk -- entry point of the /verif checks.

  python3-vt vk.py check <ID> [--tier quick|thorough] [--only SUBSTR] [--nproc N]
  /venv/bin/python vk.py replay <path>      (exit 1 = violation reproduced on the real code)
  python3-vt vk.py setup                    (shim validation + smoke paths)
"""
import argparse
import os
import sys

ROOT = os.path.dirname(os.path.abspath(__file__))
sys.path.insert(0, ROOT)


def main():
    ap = argparse.ArgumentParser()
    sub = ap.add_subparsers(dest='cmd', required=True)
    c = sub.add_parser('check')
    c.add_argument('pid')
    c.add_argument('--tier', default=os.environ.get('VERIF_TIER', 'quick'))
    c.add_argument('--only', default=None)
    c.add_argument('--nproc', type=int, default=None)
    r = sub.add_parser('replay')
    r.add_argument('path')
    sub.add_parser('setup')
    a = ap.parse_args()
    if a.cmd == 'check':
        from vkit import framework
        seed = int(os.environ.get('VERIF_SEED', '0') or 0)
        tier = a.tier if a.tier in ('quick', 'thorough') else 'quick'
        sys.exit(framework.run_check(a.pid, tier, seed, a.nproc, a.only))
    if a.cmd == 'replay':
        from vkit import framework
        try:
            rc = framework.replay_main(a.path)
        except BaseException as e:  # noqa: BLE001
            import traceback
            traceback.print_exc()
            print(f'replay: harness error {type(e).__name__}: {e}')
            rc = 2
        sys.exit(rc)
    if a.cmd == 'setup':
        from vkit import setup_check
        sys.exit(setup_check.main())


if __name__ == '__main__':
    main()
