#!/usr/bin/env python3
"""Confirm a seeded change produced by a sub-agent and run our checks on it.

usage: seed_confirm.py <seed-name> <worktree> <PID[:only]>...
 1. in the scratch worktree: demo fails with the change, passes without, and
    the pinned test-suite passes with the change;
 2. copy patch.diff / demo.py / meta.json to /verif/seeded/<seed-name>/;
 3. apply the patch to /repo, run the named checks (quick tier), undo it.
"""
import json, os, shutil, subprocess, sys, time

def sh(cmd, cwd=None, timeout=3600, env=None):
    p = subprocess.run(cmd, shell=True, cwd=cwd, capture_output=True, text=True, timeout=timeout, env=env)
    return p.returncode, p.stdout + p.stderr

def main():
    name, wt, pids = sys.argv[1], sys.argv[2], sys.argv[3:]
    seed = os.path.join(wt, 'seed')
    patch = os.path.join(seed, 'patch.diff')
    out = {'name': name}
    # state: patch applied in the worktree
    rc, o = sh('git diff --stat -- kfac', wt); out['diffstat'] = o.strip()
    rc, o = sh('/venv/bin/python seed/demo.py', wt, 900); out['demo_with_change_rc'] = rc; demo_out = o[-600:]
    if '--skip-tests' in pids:
        pids.remove('--skip-tests'); out['tests_with_change'] = 'skipped'
    else:
        rc, o = sh('/venv/bin/python -m pytest -q -p no:cacheprovider --timeout=900 tests 2>&1 | tail -3', wt, 1800)
        out['tests_with_change'] = o.strip().splitlines()[-1] if o.strip() else ''
    sh('git stash', wt)
    rc, o = sh('/venv/bin/python seed/demo.py', wt, 900); out['demo_without_change_rc'] = rc
    sh('git stash pop', wt)
    dst = os.path.join('/verif/seeded', name)
    os.makedirs(dst, exist_ok=True)
    for f in ('patch.diff', 'demo.py', 'meta.json'):
        if os.path.exists(os.path.join(seed, f)):
            shutil.copy(os.path.join(seed, f), os.path.join(dst, f))
    ok = out['demo_with_change_rc'] == 1 and out['demo_without_change_rc'] == 0
    out['confirmed'] = ok
    print(json.dumps(out, indent=1)); print(demo_out)
    # our checks against /repo with the patch applied
    rc, o = sh(f'git -C /repo apply {patch}')
    if rc != 0:
        print('PATCH DOES NOT APPLY', o); return 2
    results = {}
    try:
        for pid in pids:
            extra = ''
            if ':' in pid:
                pid, only = pid.split(':', 1); extra = f' --only {only}'
            t = time.time()
            rc, o = sh(f'python3-vt /verif/vk.py check {pid} --tier {os.environ.get("TIER", "quick")}{extra}', '/verif', 3600)
            lines = [l for l in o.splitlines() if l.startswith(('VIOLATION', 'KNOWN', 'INCONCLUSIVE', 'HARNESS', '['))]
            results[pid] = {'exit': rc, 'wall': round(time.time() - t, 1), 'lines': lines[:6]}
            print(f'== {pid}: exit {rc} ({results[pid]["wall"]}s)')
            for l in lines[:6]:
                print('   ' + l[:260])
    finally:
        sh('git -C /repo checkout -- .')
        rc, o = sh('git -C /repo status --short'); print('repo status after undo:', repr(o.strip()))
    meta_p = os.path.join(dst, 'meta.json')
    try:
        meta = json.load(open(meta_p))
    except Exception:
        meta = {}
    meta['confirmation'] = out
    meta['checks_run'] = results
    meta['ran'] = [f'python3-vt vk.py check {p} --tier quick (with the patch applied to /repo, then git checkout -- .)' for p in results]
    json.dump(meta, open(meta_p, 'w'), indent=1)

if __name__ == '__main__':
    sys.exit(main())
