#!/usr/bin/env python3
"""Regenerate /verif/MANIFEST.json from the table below."""
import json
import os

ROOT = os.path.dirname(os.path.dirname(os.path.abspath(__file__)))

TECH = 'bounded symbolic execution of the real kfac source on a z3-term torch shim + SMT (z3; cvc5 for IEEE-754 queries)'

CHECKS = {
    'C06': dict(
        text='Every relation of the statement is an obligation decided by z3 under the path condition of one path '
             'in which all W KAISAAssignment instances (one per local rank) are constructed from symbolic costs; '
             'acceptance of every k/W is a QF_BVFP reachability query on the real constructors (cvc5, z3 fallback). '
             'Bounded: W<=16 (quick) / <=64 (thorough) for the relations, W<2^8 / <2^11 for acceptance.',
        note='exact-real costs; CPython 3.11 set iteration order; group_func stubbed by a recorder; IEEE-754 as modelled by cvc5/z3; '
             'nothing is claimed beyond the stated world sizes',
        ref='DESIGN.md 3/C06'),
    'C17': dict(
        text='The real greedy_assignment runs on symbolic costs; all z3-feasible orderings/tie patterns are explored and on each '
             'path an independent LPT specification (exists a non-increasing order making every placement least-loaded), '
             'confinement, balance bounds and purity are proved by z3. Bounded: <=3 layers (4 thorough) x <=3 factors, W<=8.',
        note='exact-real costs (float rounding of load sums outside the claim); oracle lpt_ref; z3',
        ref='DESIGN.md 3/C17'),
}

CHECKS.update({
    'C01': dict(
        text='The real KFACPreconditioner.step() runs on the shim with all factors, gradients, damping, lr and kl_clip symbolic. '
             'Inverse method: SPD matrices are parametrised L diag(d) L^T so the inverse is a closed form and z3 proves '
             '(G+lam I) W (A+lam I) == nu*D. Eigen method: eigh returns unconstrained (d,Q) and z3 proves the gradients equal '
             'nu*Qg((Qg^T D Qa)/(dg+ x da+ + lam))Qa^T for all real Q,d (both prediv settings), the eigh arguments are the factors, '
             'and a code-independent bridging lemma ties that formula to G+ V A+ + lam V = D at small shapes. Linear and conv '
             'layers up to 3x3 / 3x4 combined gradients, single layer plus mixed multi-layer models sharing one clip scale.',
        note='exact reals (rounding, conditioning-scaled tolerance, half precision numerics outside the claim; dtype is a tag); '
             'LAPACK by contract stubs; bridging lemma only decided for symbolic Q at 1x1,2x1,1x2 and fixed rational Q up to 3x3',
        ref='DESIGN.md 3/C01'),
    'C07': dict(
        text='The real _compute_grad_scale/update_grad (arbitrary symbolic V installed through the public grad setter) and the full step() '
             '(uninterpreted inverses) run with symbolic V, D, lr, kl_clip (constant, callable, None). z3 proves: the sqrt argument is '
             'kl/|sum<V,D>lr^2|, every layer receives the same nu=min(1,r), a zero inner product gives nu=1, None leaves V unscaled and is '
             'accepted by the constructor, and (lemma) nu^2 lr^2|sum|<=kl. 1-3 layers, linear/conv, bias on/off.',
        note='sqrt modelled as the exact real root (contract stub); cross-rank agreement of nu is covered by C02',
        ref='DESIGN.md 3/C07'),
    'C19': dict(
        text='The real LambdaParamScheduler drives a real BaseKFACPreconditioner; initial values, step counts, explicit step arguments '
             'and the six factor functions (uninterpreted Int->Real) are symbolic; scheduled / callable subsets enumerated; <=2 (3) steps. '
             'z3 proves the multiplicative update at the right step, truncation of the intervals, unscheduled parameters untouched, '
             'ValueError iff a scheduled parameter is callable, and value/range/monotonicity of exp_decay_factor_averaging.',
        note='exact reals; int() replaced by an exact symbolic truncation in the module namespace', ref='DESIGN.md 3/C19'),
    'C20': dict(
        text='kfac.tracing runs under a symbolic non-decreasing clock; every event sequence over {call f_i returning, call raising, clear} '
             'of length 4 (5) is executed with symbolic clock readings, return values, average flag and max_history; z3 proves pass-through, '
             'one sample per completed call, sum/mean over the last max_history samples, and clear.',
        note='clock stub; max_history >= 1 or None; sync=True exercised in a 2-rank simulated world', ref='DESIGN.md 3/C20'),
})

CHECKS.update({
    'C04': dict(
        text='The real KFACPreconditioner (hooks, micro-batch accumulation, EMA, averaged factor all-reduce) runs on 1-2 (3) simulated ranks '
             'with symbolic activations/output-gradients per rank and micro-batch, symbolic previous factors, decay (constant or callable), '
             'loss scale, step count and factor-update interval. z3 proves A and G equal decay*prev+(1-decay)*M with M the mean second moment '
             'of the bias-augmented / patch-unfolded rows (identity init when fresh), symmetry, dtype tag, no change on non-update steps '
             'and across interleaved eval-mode passes. Linear (2-D/3-D inputs) and padded/strided conv layers.',
        note='exact reals; PSD follows from the proved recurrence with a Gram-matrix M; distributed layer is the simulator contract',
        ref='DESIGN.md 3/C04'),
    'C10': dict(
        text='Model trees mixing registered, skipped, frozen and unsupported modules with symbolic parameters, buffers and gradients; after the '
             'real step() z3/identity checks prove parameters, buffers and unregistered gradients are the same unwritten objects with unchanged '
             'values, registered gradients keep shape/dtype tag/device/contiguity, all division and sqrt side conditions hold, hooks return None '
             'without writing to their arguments, and eval-mode passes (also in the middle of an accumulation window) change no observable state.',
        note='finite = no division by zero / negative root in the reals; autograd transparency of None-returning hooks is torch contract; '
             'in-place writes observed through shim version counters', ref='DESIGN.md 3/C10'),
    'C14': dict(
        text='fill_triu(get_triu(X))==X for a symbolic symmetric X (position-revealing symbols) for every n<=16 (48), contiguous and transposed '
             'inputs, three dtype tags; symmetric allreduce/broadcast/allreduce_bucketed equal their dense counterparts on the simulator; '
             'rejection of non-square / non-2-D shapes before any communication is decided by z3 over symbolic dimensions.',
        note='packing only moves elements; shim indexing semantics validated against torch', ref='DESIGN.md 3/C14'),
    'C15': dict(
        text='For each enumerated conv geometry (kernels 1..3, strides 1..2, paddings 0..1 incl. asymmetric, sizes not divisible by the stride) '
             'and N-d linear inputs the real helpers run on symbolic inputs; z3 proves patch extraction == index-formula im2col, A/G == second '
             'moments of the unfolded rows, get_grad == sum of outer(gy row,[patch row|1]) for a weight.grad given by the backward-pass '
             'specification, set/get round trips and advertised shapes.',
        note='backward-pass specification validated against real autograd in setup; dilation 1, groups 1', ref='DESIGN.md 3/C15'),
})

CHECKS.update({
    'C02': dict(
        text='W=2..4 (6) simulated ranks each run the real KFACPreconditioner (every divisor k as float k/W and the strategy enums, colocate on/off, '
             'COMPUTE/MEMORY, bucket cap 0 / symbolic / huge, symmetry-aware, eigen / prediv / inverse, hook or step updates, 1-2 steps) on their own '
             'symbolic micro-batch with a common symbolic gradient; z3 proves every rank ends with exactly the gradients of the single-process '
             'reference state machine on the union batch (LAPACK uninterpreted with congruence), including the shared clip scale.',
        note='exact reals; simulator contract for torch.distributed (values of matched collectives are schedule independent; 3 baton policies run); '
             'DDP precondition: equal gradients on all ranks before step()', ref='DESIGN.md 3/C02'),
    'C08': dict(
        text='One real TorchDistributedCommunicator per simulated rank; every tensor element symbolic, bucket capacity a symbolic real (all feasible '
             'bucketings are explored), sequences/shapes/dtype tags/flags/group mixtures (incl. distinct equal-size groups of a 2x2 grid, sub-groups, '
             'singleton) enumerated, 1-2 fill/flush cycles. z3 proves every future equals the unbucketed allreduce in value/shape/dtype; the event log '
             'shows each tensor sent exactly once in its own group, multi-tensor buckets within capacity, nothing pending after flush.',
        note='exact reals; simulator contract; one dtype per sequence', ref='DESIGN.md 3/C08'),
})

CHECKS.update({
    'C03': dict(
        text='The real preconditioner runs histories (train then 3 (4) operations from train/eval/state_dict/memory_usage/load/reset, on all ranks '
             'or on a subset where no collective is implied) on 2-4 (6) simulated ranks for every divisor k, with symbolic factor/inverse intervals '
             '(or uninterpreted interval functions) and starting step, so every feasible gating pattern is a path. The simulator checks kind/shape/dtype/root '
             'equality, membership, new_group sequences and completion at match time; the extracted traces are decided for ALL interleavings by an '
             'integer-difference-logic query (quick) and a BMC with a symbolic scheduler (thorough). An AST scan re-establishes schedule independence of the traces.',
        note='simulator contract for torch.distributed (per-group FIFO matching, async op completes when all members issued); value-agnostic tensors; '
             'GPT-NeoX group creation is C12', ref='DESIGN.md 3/C03', technique='bounded symbolic execution of the real source on a distributed simulator + SMT (IDL / BMC over all rank interleavings)'),
    'C05': dict(
        text='Inductive lock-step: from an arbitrary step-boundary state reached through the public load_state_dict (second-order data from arbitrary '
             'older factors at an arbitrary older step, arbitrary current factors and step count) the real preconditioner and the reference state machine '
             'run 2 (3) operations from {train, eval, reset_batch, partial-reset-train}; intervals and damping/decay/kl_clip/lr are symbolic constants or '
             'uninterpreted functions of the step. z3 proves step count +1, factors and gradients equal the reference after every operation.',
        note='exact reals; LAPACK uninterpreted with congruence; the induction covers arbitrary history lengths as far as the stated state abstraction is closed',
        ref='DESIGN.md 3/C05'),
    'C09': dict(
        text='The lock-step harness with checkpoint operations at every position: state_dict -> in-memory save/load -> freshly constructed preconditioner -> '
             'load_state_dict (compute_inverses on/off, with/without factors), on 1-2 (4) simulated ranks for every divisor k, from an arbitrary boundary state '
             'or from boundary 0. z3 proves restored step count, scalars and factors, that load never fails, and that the continued run equals the reference '
             'with the load transition.',
        note='exact reals; stubs as C05; documented preconditions for compute_inverses=False / include_factors=False assumed', ref='DESIGN.md 3/C09'),
    'C11': dict(
        text='data x model grids (1..2 x 1..2, +(1,3),(3,1); one pipe=2 case) of simulated ranks run the real GPTNeoXKFACPreconditioner on shards of '
             'column-/row-parallel layers with symbolic data; z3 proves the primary rank holds the unsharded factors and every rank ends with its shard '
             'of nu*V_full of the unsharded reference (global clip scale). The recorded finding (shard-local clip scale with model parallelism) is '
             're-observed on two witnesses.',
        note='DeepSpeed / Megatron are re-implemented stand-ins (cannot be installed); exact reals; simulator contract', ref='DESIGN.md 3/C11'),
    'C12': dict(
        text='For every (pipe,data,model) with product <= 8 (16) all ranks of a simulated world construct the real GPTNeoXAssignment with symbolic costs; '
             'z3/trace checks prove stage agreement, valid least-loaded greedy choice (any tie-break), factor-worker / gradient-source / gradient-worker '
             'relations from the coordinates, and identical new_group sequences on every rank.',
        note='DeepSpeed topology is a re-implementation of the documented ProcessTopology; simulator contract for new_group', ref='DESIGN.md 3/C12'),
    'C13': dict(
        text='Read off the history simulation (symbolic intervals / start step): per rank, tensors reachable from each layer (attribute walk) vs '
             'is_grad_worker, memory_usage() vs bytes held, and the collective trace per operation: inverse broadcasts only in worker groups (none under MEM-OPT), '
             'gradient broadcasts only in receiver groups (none under COMM-OPT), each factor all-reduced over the world exactly once per factor-update step '
             '(element counts, n(n+1)/2 when symmetric), nothing in a world of one, nothing outside steps and loads.',
        note='value-agnostic tensors; simulator event log; the solver decides the interval/step gating', ref='DESIGN.md 3/C13'),
    'C16': dict(
        text='Module trees from a small grammar (nesting, shared instance, subclasses, unsupported and parameter-less leaves) with two child names as '
             'symbolic strings and every requires_grad as a symbolic boolean; skip patterns are translated to z3 regular expressions (symre). z3 proves '
             'registered <=> leaf, supported, trainable, no pattern found in qualified name or class name; first qualified name; hooks exactly once; '
             'others untouched. GPT-NeoX variant on lower-cased class names.',
        note='regex subset translated by sre_parse and validated differentially against re on every run; names identifier-like, length <= 8',
        ref='DESIGN.md 3/C16', technique='bounded symbolic execution of the real source + SMT (z3 strings / regular expressions)'),
    'C18': dict(
        text='GPT-NeoX grids run j steps, state_dict() on all ranks (all_gather_object / gloo group / barrier or per-layer files in an in-memory file system), '
             'load into fresh objects, continue. z3 proves the saved state holds the unsharded reference factors on every rank / one file per layer, the '
             'gathering ranks restore them and recompute second-order data iff requested, all ranks issue the same collectives, and the resumed run equals '
             'the reference. The recorded finding (replicated factor restored on one peer only, model > 1) is re-observed on two witnesses.',
        note='as C11; in-memory file system; kl_clip=None', ref='DESIGN.md 3/C18'),
})

NOT_YET = {
}


def main():
    props = [json.loads(l) for l in open(os.path.join(ROOT, 'properties.jsonl'))]
    checks, na = [], []
    for p in props:
        pid = p['id']
        if pid in CHECKS:
            c = CHECKS[pid]
            checks.append({
                'property_id': pid,
                'quick_cmd': f'python3-vt vk.py check {pid} --tier quick',
                'thorough_cmd': f'python3-vt vk.py check {pid} --tier thorough',
                'evidence_file': f'/verif/evidence/{pid}.json',
                'replay_cmd_template': '/venv/bin/python vk.py replay {path}',
                'engine': 'vkit',
                'level_claimed': {'category': 'other', 'text': c['text'], 'design_ref': c['ref']},
                'level_note': c['note'],
                'technique': c.get('technique', TECH),
            })
        else:
            na.append({'property_id': pid,
                       'reason': NOT_YET.get(pid, 'check not built yet in this session (build order in DESIGN.md section 7); no claim is made')})
    m = {
        'version': 1,
        'setup_cmd': 'python3-vt vk.py setup',
        'hooks': {
            'guard': 'KFAC_PYTORCH_VERIF',
            'enable': 'no hook is needed: the checks import /repo/kfac unmodified on top of a torch shim',
            'baseline_off_cmd': 'cd /repo && /venv/bin/python -m pytest -ra -q -p no:cacheprovider --timeout=900 --continue-on-collection-errors',
            'source_commits': [],
            'add_only': True,
        },
        'engines': [{
            'name': 'vkit', 'path': '/verif/vkit',
            'serves_properties': sorted(CHECKS),
            'kind_free_text': 'symbolic execution of the real Python source (re-execution path explorer over z3 proxies, torch shim '
                              'with z3-term tensors, deterministic torch.distributed simulator), SMT obligations, replay on real torch',
        }],
        'checks': checks,
        'not_applicable': na,
        'notes': 'exit codes: 0 holds within bounds; 1 + VIOLATION line: counter-model replayed on the real code; 3: inconclusive '
                 '(solver unknown / timeout / non-reproducing model / not encodable). Replay exit 1 = reproduced.',
    }
    with open(os.path.join(ROOT, 'MANIFEST.json'), 'w') as f:
        json.dump(m, f, indent=1)
    print('checks:', [c['property_id'] for c in checks], 'n/a:', len(na))


if __name__ == '__main__':
    main()
