#!/usr/bin/env python3
"""Regenerate /verif/MANIFEST.json from the table below."""
import json
import os

ROOT = os.path.dirname(os.path.dirname(os.path.abspath(__file__)))

TECH = 'bounded symbolic execution of the real kfac source on a z3-term torch shim + SMT (z3; cvc5 for IEEE-754 queries)'

CHECKS = {
    'C06': dict(
        text='Every relation of the statement is an obligation decided by z3 under the path condition of one path '
             'in which all W KAISAAssignment instances (one per local rank) are constructed from symbolic costs; '
             'acceptance of every k/W is a QF_BVFP reachability query on the real constructors (cvc5, z3 fallback). '
             'Bounded: W<=16 (quick) / <=64 (thorough) for the relations, W<2^8 / <2^11 for acceptance.',
        note='exact-real costs; CPython 3.11 set iteration order; group_func stubbed by a recorder; IEEE-754 as modelled by cvc5/z3; '
             'nothing is claimed beyond the stated world sizes',
        ref='DESIGN.md 3/C06'),
    'C17': dict(
        text='The real greedy_assignment runs on symbolic costs; all z3-feasible orderings/tie patterns are explored and on each '
             'path an independent LPT specification (exists a non-increasing order making every placement least-loaded), '
             'confinement, balance bounds and purity are proved by z3. Bounded: <=3 layers (4 thorough) x <=3 factors, W<=8.',
        note='exact-real costs (float rounding of load sums outside the claim); oracle lpt_ref; z3',
        ref='DESIGN.md 3/C17'),
}

NOT_YET = {
}


def main():
    props = [json.loads(l) for l in open(os.path.join(ROOT, 'properties.jsonl'))]
    checks, na = [], []
    for p in props:
        pid = p['id']
        if pid in CHECKS:
            c = CHECKS[pid]
            checks.append({
                'property_id': pid,
                'quick_cmd': f'python3-vt vk.py check {pid} --tier quick',
                'thorough_cmd': f'python3-vt vk.py check {pid} --tier thorough',
                'evidence_file': f'/verif/evidence/{pid}.json',
                'replay_cmd_template': '/venv/bin/python vk.py replay {path}',
                'engine': 'vkit',
                'level_claimed': {'category': 'other', 'text': c['text'], 'design_ref': c['ref']},
                'level_note': c['note'],
                'technique': c.get('technique', TECH),
            })
        else:
            na.append({'property_id': pid,
                       'reason': NOT_YET.get(pid, 'check not built yet in this session (build order in DESIGN.md section 7); no claim is made')})
    m = {
        'version': 1,
        'setup_cmd': 'python3-vt vk.py setup',
        'hooks': {
            'guard': 'KFAC_PYTORCH_VERIF',
            'enable': 'no hook is needed: the checks import /repo/kfac unmodified on top of a torch shim',
            'baseline_off_cmd': 'cd /repo && /venv/bin/python -m pytest -ra -q -p no:cacheprovider --timeout=900 --continue-on-collection-errors',
            'source_commits': [],
            'add_only': True,
        },
        'engines': [{
            'name': 'vkit', 'path': '/verif/vkit',
            'serves_properties': sorted(CHECKS),
            'kind_free_text': 'symbolic execution of the real Python source (re-execution path explorer over z3 proxies, torch shim '
                              'with z3-term tensors, deterministic torch.distributed simulator), SMT obligations, replay on real torch',
        }],
        'checks': checks,
        'not_applicable': na,
        'notes': 'exit codes: 0 holds within bounds; 1 + VIOLATION line: counter-model replayed on the real code; 3: inconclusive '
                 '(solver unknown / timeout / non-reproducing model / not encodable). Replay exit 1 = reproduced.',
    }
    with open(os.path.join(ROOT, 'MANIFEST.json'), 'w') as f:
        json.dump(m, f, indent=1)
    print('checks:', [c['property_id'] for c in checks], 'n/a:', len(na))


if __name__ == '__main__':
    main()
