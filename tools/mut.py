#!/usr/bin/env python3
"""Run checks against a mutated scratch copy of /repo/kfac.

usage: mut.py <file> <old> <new> -- C01 [C02 ...]   (old/new: python-escaped strings)
       mut.py --patch <diff> -- C01 ...
"""
import os, shutil, subprocess, sys, tempfile, codecs

def main():
    a = sys.argv[1:]
    i = a.index('--')
    spec, pids = a[:i], a[i + 1:]
    tier = os.environ.get('TIER', 'quick')
    d = tempfile.mkdtemp(prefix='kfmut_', dir='/tmp')
    try:
        shutil.copytree('/repo/kfac', os.path.join(d, 'kfac'))
        shutil.copytree('/repo/testing', os.path.join(d, 'testing'))
        if spec[0] == '--patch':
            subprocess.check_call(['patch', '-p1', '-d', d, '-i', os.path.abspath(spec[1])])
        else:
            f, old, new = spec
            old = codecs.decode(old, 'unicode_escape'); new = codecs.decode(new, 'unicode_escape')
            p = os.path.join(d, f)
            s = open(p).read()
            if old not in s:
                print('MUT: pattern not found'); return 2
            open(p, 'w').write(s.replace(old, new, 1))
        env = dict(os.environ, VERIF_REPO=d)
        rc = 0
        for pid in pids:
            extra = []
            if ':' in pid:
                pid, only = pid.split(':', 1)
                extra = ['--only', only]
            r = subprocess.run(['python3-vt', '/verif/vk.py', 'check', pid, '--tier', tier] + extra, env=env,
                               capture_output=True, text=True)
            lines = [l for l in r.stdout.splitlines() if l.startswith(('VIOLATION', 'KNOWN', 'INCONCLUSIVE', 'HARNESS', '['))]
            print(f'== {pid}: exit {r.returncode}')
            for l in lines[:8]:
                print('   ' + l[:300])
            if r.returncode not in (0, 1):
                print(r.stdout[-1500:]); print(r.stderr[-1500:])
    finally:
        shutil.rmtree(d, ignore_errors=True)

if __name__ == '__main__':
    sys.exit(main())
