#!/usr/bin/env python3
"""Mutant self-test (not a manifest command).

Each entry is applied to a scratch copy of /repo/kfac (VERIF_REPO) and the
named checks run on it (quick tier).  `expect` is 'caught' (some check must
exit 1 with a reproduced VIOLATION) or 'clean' (behaviour-preserving refactor:
every check must exit 0 -- a false alarm here is a bug of the machinery).

usage: mutants.py [name-substring]
"""
import codecs
import json
import os
import shutil
import subprocess
import sys
import tempfile

M = [
    # ---- must be caught -------------------------------------------------
    ('eigen-transposed-Q', 'kfac/layers/eigen.py', "        v1 = self.qg.t() @ grad @ self.qa\n        if self.prediv", "        v1 = self.qg @ grad @ self.qa\n        if self.prediv", ['C01'], 'caught'),
    ('eigen-no-clamp', 'kfac/layers/eigen.py', "        self.dg = torch.clamp(self.dg, min=0.0)", "        self.dg = self.dg", ['C01'], 'caught'),
    ('inverse-no-damping-G', 'kfac/layers/inverse.py', "        g = self.g_factor + d", "        g = self.g_factor", ['C01'], 'caught'),
    ('ema-alpha-swapped', 'kfac/layers/base.py', "        self.a_factor = (alpha * self.a_factor) + ((1 - alpha) * a_new)", "        self.a_factor = ((1 - alpha) * self.a_factor) + (alpha * a_new)", ['C04'], 'caught'),
    ('microbatch-no-division', 'kfac/layers/base.py', "            self._g_batch = (1 / self._g_count) * self._g_batch", "            self._g_batch = self._g_batch", ['C04'], 'caught'),
    ('clip-no-sqrt', 'kfac/base_preconditioner.py', "        return min(1.0, math.sqrt(self.kl_clip / abs(vg_sum)))", "        return min(1.0, self.kl_clip / abs(vg_sum))", ['C07'], 'caught'),
    ('clip-lr-not-squared', 'kfac/base_preconditioner.py', "            vg_sum += (v1 * w * self.lr**2).sum().item()", "            vg_sum += (v1 * w * self.lr).sum().item()", ['C07'], 'caught'),
    ('schedule-at-step-plus-1', 'kfac/base_preconditioner.py', "            self._damping(self.steps)\n            if callable(self._damping)", "            self._damping(self.steps + 1)\n            if callable(self._damping)", ['C05'], 'caught'),
    ('inverse-every-step', 'kfac/base_preconditioner.py', "        if self.steps % self.inv_update_steps == 0:\n            for name, layer in reversed", "        if True:\n            for name, layer in reversed", ['C05', 'C13'], 'caught'),
    ('register-match-not-search', 'kfac/layers/register.py', "    return any(regex.search(query) for regex in regexes)", "    return any(regex.match(query) for regex in regexes)", ['C16'], 'caught'),
    ('register-frozen', 'kfac/layers/register.py', "    return all([p.requires_grad for p in module.parameters()])", "    return any([p.requires_grad for p in module.parameters()])", ['C16'], 'caught'),
    ('triu-offset', 'kfac/distributed.py', "    idxs = torch.triu_indices(rows, rows, 1, device=dst_tensor.device)", "    idxs = torch.triu_indices(rows, rows, 2, device=dst_tensor.device)", ['C14'], 'caught'),
    ('bucket-loses-average', 'kfac/distributed.py', "            t = future_.value()\n            if average:", "            t = future_.value()\n            if average and not symmetric:", ['C08'], 'caught'),
    ('broadcast-inverses-to-all', 'kfac/assignment.py', "        return self.local_rank in self._grad_worker_groups[layer].ranks", "        return True", ['C13', 'C06'], 'caught'),
    ('grad-src-wrong', 'kfac/assignment.py', "            self._grad_worker_groups[layer].ranks\n            & self._grad_receiver_groups[layer].ranks,\n        ).pop()", "            self._grad_worker_groups[layer].ranks,\n        ).pop()", ['C06'], 'caught'),
    ('greedy-stale-load', 'kfac/assignment.py', "                worker_loads[min_worker] += summed_work[layer]", "                worker_loads[min_worker] = summed_work[layer]", ['C17'], 'caught'),
    ('sched-wrong-step', 'kfac/scheduler.py', "            factor = self._lr_lambda(\n                step if step is not None else self._preconditioner.steps,\n            )", "            factor = self._lr_lambda(\n                self._preconditioner.steps,\n            )", ['C19'], 'caught'),
    ('trace-mean-over-all', 'kfac/tracing.py', "            out[fname] /= len(times)", "            out[fname] /= len(_func_traces[fname])", ['C20'], 'caught'),
    ('conv-kernel-major', 'kfac/layers/modules.py', "        x = x.transpose_(1, 2).transpose_(2, 3).contiguous()\n        x = x.view(\n            x.size(0),\n            x.size(1),\n            x.size(2),\n            x.size(3) * x.size(4) * x.size(5),\n        )", "        x = x.transpose_(1, 2).transpose_(2, 3).transpose(3, 4).transpose(4, 5).contiguous()\n        x = x.view(\n            x.size(0),\n            x.size(1),\n            x.size(2),\n            x.size(3) * x.size(4) * x.size(5),\n        )", ['C15'], 'caught'),
    ('set-grad-casts', 'kfac/layers/eigen.py', "        self.grad = (self.qg @ v2 @ self.qa.t()).to(grad_type)", "        self.grad = (self.qg @ v2 @ self.qa.t())", ['C10'], 'caught'),
    ('neox-factor-worker-own-data-group', 'kfac/gpt_neox/assignment.py', "        data_parallel_ranks = get_group_with_rank(\n            inv_rank,\n            self.data_parallel_groups,\n        )", "        data_parallel_ranks = get_group_with_rank(\n            self.local_rank,\n            self.data_parallel_groups,\n        )", ['C12'], 'caught'),
    ('load-skips-steps', 'kfac/base_preconditioner.py', "        self._steps = state_dict['steps']\n", "        self._steps = state_dict['steps'] if 'layers' not in state_dict else self._steps\n", ['C09'], 'caught'),
    # ---- behaviour-preserving refactors: must stay clean ------------------
    ('refactor-get_cov', 'kfac/layers/utils.py', "        cov_a = a.t() @ (a / scale)", "        cov_a = (a.t() @ a) / scale", ['C04', 'C15', 'C02'], 'clean'),
    ('refactor-ema', 'kfac/layers/base.py', "        self.g_factor = (alpha * self.g_factor) + ((1 - alpha) * g_new)", "        self.g_factor = g_new + alpha * (self.g_factor - g_new)", ['C04', 'C05'], 'clean'),
    ('refactor-eigen-assoc', 'kfac/layers/eigen.py', "        self.grad = (self.qg @ v2 @ self.qa.t()).to(grad_type)", "        self.grad = (self.qg @ (v2 @ self.qa.t())).to(grad_type)", ['C01', 'C02', 'C10'], 'clean'),
    ('refactor-eigen-recip', 'kfac/layers/eigen.py', "            v2 = v1 / (\n                torch.outer(\n                    cast(torch.Tensor, self.dg),\n                    cast(torch.Tensor, self.da),\n                )\n                + damping\n            )", "            v2 = v1 * (1 / (\n                torch.outer(\n                    cast(torch.Tensor, self.dg),\n                    cast(torch.Tensor, self.da),\n                )\n                + damping\n            ))", ['C01', 'C07'], 'clean'),
    ('refactor-average-div', 'kfac/distributed.py', "            t = future_.value()\n            if average:\n                t = (1 / get_world_size(group)) * t", "            t = future_.value()\n            if average:\n                t = t / get_world_size(group)", ['C08', 'C04', 'C02'], 'clean'),
    ('refactor-clip-sum', 'kfac/base_preconditioner.py', "            vg_sum += (v1 * w * self.lr**2).sum().item()", "            vg_sum += (v1 * w).sum().item() * self.lr**2", ['C07', 'C01'], 'clean'),
    ('refactor-greedy-argmin', 'kfac/assignment.py', "                min_worker = worker_group[\n                    _worker_group_loads.index(min(_worker_group_loads))\n                ]\n                worker_loads[min_worker] += summed_work[layer]", "                min_worker = min(worker_group, key=lambda i: worker_loads[i])\n                worker_loads[min_worker] += summed_work[layer]", ['C17', 'C06'], 'clean'),
    ('refactor-inverse-eye', 'kfac/layers/inverse.py', "        d = torch.diag(\n            self.a_factor.new(self.a_factor.shape[0]).fill_(damping),\n        )\n        a = self.a_factor + d", "        a = self.a_factor + damping * torch.eye(self.a_factor.shape[0], dtype=self.a_factor.dtype)", ['C01', 'C07'], 'clean'),
    ('refactor-conv-reshape', 'kfac/layers/modules.py', "        x = x.transpose_(1, 2).transpose_(2, 3).contiguous()", "        x = x.permute(0, 2, 3, 1, 4, 5).contiguous()", ['C15', 'C04'], 'clean'),
    ('refactor-trace-sum', 'kfac/tracing.py', "        out[fname] = sum(times)", "        out[fname] = sum(times, 0.0)", ['C20'], 'clean'),
    ('refactor-anymatch', 'kfac/layers/register.py', "    regexes = [re.compile(p) for p in patterns]\n    return any(regex.search(query) for regex in regexes)", "    return any(re.search(p, query) is not None for p in patterns)", ['C16'], 'clean'),
]


def run(entry):
    name, f, old, new, checks, expect = entry
    d = tempfile.mkdtemp(prefix='kfmut_', dir='/tmp')
    try:
        shutil.copytree('/repo/kfac', os.path.join(d, 'kfac'))
        shutil.copytree('/repo/testing', os.path.join(d, 'testing'))
        p = os.path.join(d, f)
        s = open(p).read()
        if old not in s:
            return name, expect, 'PATTERN-NOT-FOUND', {}
        open(p, 'w').write(s.replace(old, new, 1))
        env = dict(os.environ, VERIF_REPO=d)
        res = {}
        for c in checks:
            r = subprocess.run(['python3-vt', '/verif/vk.py', 'check', c, '--tier', 'quick'], env=env, capture_output=True, text=True)
            res[c] = r.returncode
        if expect == 'caught':
            ok = any(v == 1 for v in res.values())
        else:
            ok = all(v == 0 for v in res.values())
        return name, expect, 'ok' if ok else 'UNEXPECTED', res
    finally:
        shutil.rmtree(d, ignore_errors=True)


def main():
    sel = sys.argv[1] if len(sys.argv) > 1 else ''
    out = []
    for e in M:
        if sel and sel not in e[0]:
            continue
        r = run(e)
        print(json.dumps(r), flush=True)
        out.append(r)
    bad = [r for r in out if r[2] != 'ok']
    print(f'{len(out) - len(bad)}/{len(out)} as expected')
    return 1 if bad else 0


if __name__ == '__main__':
    sys.exit(main())
