#!/bin/bash
# run checks of the manifest at the given tier; print exit code and wall time
# usage: run_all.sh [quick|thorough] [ID ...]
tier=${1:-quick}
shift
ids=${@:-C01 C02 C03 C04 C05 C06 C07 C08 C09 C10 C11 C12 C13 C14 C15 C16 C17 C18 C19 C20}
cd /verif
for id in $ids; do
  s=$(date +%s)
  out=$(python3-vt vk.py check $id --tier $tier 2>&1)
  rc=$?
  e=$(date +%s)
  echo "$id rc=$rc wall=$((e-s))s $(echo "$out" | grep -E '^\[C' | tail -1 | cut -c1-200)"
  echo "$out" | grep -E '^(VIOLATION|KNOWN-FINDING|INCONCLUSIVE|HARNESS-ERROR)' | cut -c1-220 | head -5
done
