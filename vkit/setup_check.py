"""setup_cmd: nothing to build; verify the tooling and validate the shim.

1. python3-vt has z3 / numpy / cvc5; /venv/bin/python has the real torch.
2. translator validation of the symtorch shim against the real torch
   (vkit/validate_shim.py, run under /venv/bin/python) -- a disagreement fails
   the setup, i.e. the framework refuses to run rather than report.
3. one smoke path through the real KFACPreconditioner on the shim.
"""
import os
import subprocess
import sys

ROOT = os.path.dirname(os.path.dirname(os.path.abspath(__file__)))


def main():
    import z3
    import numpy
    print('z3', z3.get_version_string(), 'numpy', numpy.__version__)
    try:
        import cvc5  # noqa: F401
        print('cvc5 ok')
    except ImportError:
        print('cvc5 missing: IEEE queries fall back to z3')
    vs = os.path.join(ROOT, 'vkit', 'validate_shim.py')
    if os.path.exists(vs):
        env = dict(os.environ)
        env['PYTHONPATH'] = ROOT + os.pathsep + os.environ.get('VERIF_REPO', '/repo')
        p = subprocess.run(['/venv/bin/python', vs], env=env, capture_output=True, text=True, timeout=1200)
        print(p.stdout[-3000:])
        if p.returncode != 0:
            print(p.stderr[-3000:])
            print('SETUP FAILED: shim validation')
            return 1
    from vkit import loader, symex
    loader.load_kfac()
    import torch
    import kfac.preconditioner as P

    def smoke(eng):
        m = torch.nn.Linear(2, 1)
        lam = eng.fresh_real('lam')
        eng.assume(lam > 0)
        p = P.KFACPreconditioner(m, damping=lam, kl_clip=1e9, lr=0.1)
        x = torch.ones(2, 2)
        for h in m._forward_pre_hooks.values():
            h(m, (x,))
        for h in m._backward_hooks.values():
            h(m, (None,), (torch.ones(2, 1),))
        m.weight.grad = torch.ones(1, 2)
        m.bias.grad = torch.ones(1)
        p.step()
        eng.witness('smoke')
    e = symex.Engine()
    e.explore(smoke)
    if e.stats.witnesses < 1 or e.failures:
        print('SETUP FAILED: smoke path')
        return 1
    print('setup ok')
    return 0
