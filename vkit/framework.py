"""Check runner: configurations -> parallel symbolic exploration -> replay ->
known-finding classification -> evidence -> exit code."""

from __future__ import annotations

import hashlib
import importlib
import json
import os
import re
import subprocess
import sys
import time
import traceback

ROOT = os.path.dirname(os.path.dirname(os.path.abspath(__file__)))
EVIDENCE_DIR = os.path.join(ROOT, 'evidence')
if os.environ.get('VERIF_REPO', '/repo').rstrip('/') != '/repo':
    # runs against a scratch copy (mutant self-tests) must not overwrite the committed evidence
    EVIDENCE_DIR = os.path.join(ROOT, 'evidence_scratch')
REPLAY_DIR = os.path.join(ROOT, 'replays')
KNOWN = os.path.join(ROOT, 'known_findings.json')
VENV_PY = '/venv/bin/python'

EXIT_OK, EXIT_VIOLATION, EXIT_INCONCLUSIVE = 0, 1, 3


class Prop:
    """Base class of a property check."""

    id = 'C00'
    title = ''
    assumptions: list = []
    stubs: list = []
    trusted_base: list = []
    replay_tol = 1e-5
    replay_random_tries = 12
    replay_budget = 14
    task_timeout = {'quick': 240, 'thorough': 1500}
    engine_opts: dict = {}

    def configs(self, tier: str, seed: int) -> list:
        raise NotImplementedError

    def run(self, cfg: dict, eng) -> None:
        raise NotImplementedError

    def bounds(self, tier: str) -> dict:
        return {}

    def explanation(self) -> str:
        return ''

    def extra(self, tier, seed, results):
        """Optional non-explorer work (dedicated SMT encodings). -> dict"""
        return None


def pick(key, rate: int, seed: int = 0) -> bool:
    """deterministic pseudo-random sub-sampling of enumerated configurations
    (modular strides alias with the enumeration order and lose whole classes)"""
    if rate <= 1:
        return True
    h = hashlib.md5((repr(key) + f'/{seed}').encode()).hexdigest()
    return int(h, 16) % rate == 0


def load_prop(pid: str) -> Prop:
    mod = importlib.import_module(f'vkit.props.{pid}')
    return mod.PROP


def cfg_key(cfg: dict) -> str:
    return json.dumps(cfg, sort_keys=True, default=str)


# ---------------------------------------------------------------- worker
def _worker(task):
    pid, cfg, seed, tier = task
    from vkit import loader, symex
    loader.load_kfac()
    from vkit import harness as H
    prop = load_prop(pid)
    opts = dict(prop.engine_opts)
    opts.update(cfg.get('_engine', {}))
    eng = symex.Engine(seed=seed, **opts)
    if tier == 'thorough':
        eng.rung_ms = 30000   # more patient portfolio: fewer load-dependent 'unknown's
    t0 = time.time()
    first = [True]

    def body(e):
        H.reset_backend()
        if first[0]:
            loader.profile_on()
        try:
            prop.run(cfg, e)
        finally:
            if first[0]:
                loader.profile_off()
                first[0] = False

    err = None
    try:
        eng.explore(body)
    except symex.NotEncodable as e:
        err = f'NotEncodable: {e}'
    except symex.ExplorationLimit as e:
        err = f'ExplorationLimit: {e}'
    except Exception as e:  # noqa: BLE001
        err = f'harness-exception {type(e).__name__}: {e}\n{traceback.format_exc()}'
    return {
        'cfg': cfg,
        'stats': eng.stats.as_dict(),
        'failures': [{'name': f.name, 'model': f.model.to_json()} for f in eng.failures],
        'inconclusive': list(eng.inconclusives),
        'error': err,
        'calls': sorted(loader.CALLS),
        'path_samples': eng.path_samples,
        'wall': time.time() - t0,
    }


# ---------------------------------------------------------------- known findings
def load_known():
    if not os.path.exists(KNOWN):
        return []
    with open(KNOWN) as f:
        return json.load(f).get('findings', [])


def match_known(pid, cfg, obligation, info, known):
    for k in known:
        if k.get('status', 'open') != 'open':
            continue
        if k['property'] != pid:
            continue
        if k.get('harness') and k['harness'] != cfg.get('harness'):
            continue
        if k.get('obligation') and k['obligation'] != obligation:
            continue
        ok = True
        for key, want in k.get('match', {}).items():
            have = cfg.get(key, info.get(key) if info else None)
            if isinstance(want, dict) and 'in' in want:
                if have not in want['in'] and list(have) not in want['in'] if isinstance(have, (list, tuple)) else have not in want['in']:
                    ok = False
            elif have != want:
                ok = False
        if ok:
            return k
    return None


# ---------------------------------------------------------------- replay
def write_replay(pid, cfg, failure, seed):
    d = os.path.join(REPLAY_DIR, pid)
    os.makedirs(d, exist_ok=True)
    blob = {'property': pid, 'cfg': cfg, 'obligation': failure['name'],
            'model': failure['model'], 'seed': seed,
            'repo': os.environ.get('VERIF_REPO', '/repo')}
    h = hashlib.sha256(json.dumps(blob, sort_keys=True, default=str).encode()).hexdigest()[:12]
    slug = re.sub(r'[^A-Za-z0-9_.-]+', '_', f'{cfg.get("harness", "h")}-{failure["name"]}')[:80]
    path = os.path.join(d, f'{slug}-{h}.json')
    with open(path, 'w') as f:
        json.dump(blob, f, indent=1, default=str)
    return path


def run_replay(path, timeout=300):
    """-> 'reproduced' | 'not-reproduced' | 'error'"""
    env = dict(os.environ)
    env['PYTHONPATH'] = ROOT + os.pathsep + env.get('VERIF_REPO', '/repo')
    env.pop('PYTHONHOME', None)
    try:
        p = subprocess.run([VENV_PY, os.path.join(ROOT, 'vk.py'), 'replay', path],
                           capture_output=True, text=True, timeout=timeout, env=env)
    except subprocess.TimeoutExpired:
        return 'error', 'replay timed out'
    tail = (p.stdout + p.stderr)[-3000:]
    if p.returncode == 1:
        return 'reproduced', tail
    if p.returncode == 0:
        return 'not-reproduced', tail
    return 'error', tail


def replay_main(path):
    """Runs under /venv/bin/python with the real torch.  Exit 1 = reproduced."""
    with open(path) as f:
        blob = json.load(f)
    os.environ.setdefault('VERIF_REPO', blob.get('repo', '/repo'))
    repo = os.environ['VERIF_REPO']
    if repo not in sys.path:
        sys.path.insert(0, repo)
    ds = os.path.join(ROOT, 'vkit', 'shim_ds')
    if ds not in sys.path:
        sys.path.insert(0, ds)   # DeepSpeed stand-in (DeepSpeed itself is not installable here)
    import warnings
    warnings.simplefilter('ignore')
    import torch  # real torch
    from vkit import harness as H
    from vkit import symex
    assert not H.SHIM, 'replay must run on the real torch'
    H.install_real_linalg_log()
    prop = load_prop(blob['property'])
    cm = symex.CounterModel.from_json(blob['model'])
    want = blob['obligation']
    tries = [('model', None)] + [('random', i) for i in range(prop.replay_random_tries)]
    if 'reproducing_values' in blob:
        cm.values.update({k: symex.CounterModel.dec(v) for k, v in blob['reproducing_values'].items()})
    for kind, i in tries:
        eng = symex.Engine(concrete=cm, tol=prop.replay_tol, seed=blob.get('seed', 0))
        eng.as_float = True
        if kind == 'random':
            eng.randomize = i + 1
        H.reset_backend()
        try:
            eng.explore(lambda e: prop.run(blob['cfg'], e))
        except symex.PathAbort:
            continue
        except symex.NotEncodable as e:
            print(f'replay: not encodable in concrete mode: {e}')
            continue
        side = ('nonzero-denominator', 'sqrt-argument-nonnegative')
        crash = any(n.startswith('no-exception') for n in eng.concrete_failures)
        if eng.concrete_failures:
            print(f'replay[{kind}{"" if i is None else i}]: obligations failed on the real code: '
                  f'{sorted(set(eng.concrete_failures))} (solver reported: {want})')
            for line in eng.concrete_notes[:6]:
                print('  ' + line)
            if kind == 'random':
                blob['reproducing_values'] = {
                    k: symex.CounterModel('', {k: v}, {}).to_json()['values'][k]
                    for k, v in eng.used_values.items()}
                with open(path, 'w') as f:
                    json.dump(blob, f, indent=1, default=str)
            return 1
    print('replay: the counter-model did not reproduce on the real code')
    return 0


# ---------------------------------------------------------------- main check
def run_check(pid: str, tier: str, seed: int, nproc: int | None = None,
              only: str | None = None) -> int:
    from vkit import loader, pool
    t0 = time.time()
    loader.load_kfac()
    prop = load_prop(pid)
    cfgs = prop.configs(tier, seed)
    if only:
        cfgs = [c for c in cfgs if only in cfg_key(c)]
    known = load_known()
    tasks = [(pid, c, seed, tier) for c in cfgs]
    agg = None
    from vkit import symex
    agg = symex.Stats()
    calls: set = set()
    failures, inconclusive, errors, timeouts = [], [], [], []
    confirmed = [0]

    def on_result(item):
        task, status, res = item
        if status == 'ok' and res['failures']:
            confirmed[0] += 1
            if confirmed[0] >= 40:
                return 'stop'
        return None

    results = pool.run_tasks(_worker, tasks, nproc=nproc,
                             timeout_s=prop.task_timeout[tier], on_result=on_result)
    per_harness: dict = {}
    slow: list = []
    path_samples: list = []
    nskipped = 0
    for item in results:
        task, status, res = item
        cfg = task[1]
        if status == 'skipped':
            nskipped += 1
            continue
        if status == 'timeout':
            timeouts.append(cfg)
            continue
        if status == 'error':
            errors.append((cfg, res))
            continue
        st = symex.Stats()
        for k, v in res['stats'].items():
            if k in ('samples',):
                st.samples = v
            elif k == 'obligation_names':
                st.obligation_names = v
            else:
                setattr(st, k, v)
        agg.merge(st)
        calls.update(res['calls'])
        if len(path_samples) < 4 and res.get('path_samples'):
            path_samples.append({'configuration': {k: v for k, v in cfg.items() if not k.startswith('_')},
                                 'path': res['path_samples'][-1]})
        h = cfg.get('harness', '?')
        ph = per_harness.setdefault(h, {'configs': 0, 'paths': 0, 'obligations': 0, 'wall': 0.0})
        ph['configs'] += 1
        ph['paths'] += st.paths
        ph['obligations'] += st.obligations
        ph['wall'] = round(ph['wall'] + res['wall'], 2)
        slow.append((round(res['wall'], 1), cfg_key({k: v for k, v in cfg.items() if not k.startswith('_')})[:160]))
        if res['error']:
            errors.append((cfg, res['error']))
        for inc in res['inconclusive']:
            inconclusive.append((cfg, inc))
        for f in res['failures']:
            failures.append((cfg, f))

    extra = None
    try:
        extra = prop.extra(tier, seed, results)
    except Exception as e:  # noqa: BLE001
        errors.append(({'harness': 'extra'}, f'{type(e).__name__}: {e}\n{traceback.format_exc()}'))
    if extra:
        for f in extra.get('failures', []):
            failures.append((f['cfg'], f))
        for inc in extra.get('inconclusive', []):
            inconclusive.append(({'harness': 'extra'}, inc))

    # ---- replay and classify
    violations, known_hits, unreproduced = [], [], []
    seen = set()
    # round-robin over distinct (harness, obligation) groups, larger
    # configurations first inside a group: small ones are the most likely to
    # be degenerate on real LAPACK (e.g. symmetric 2x2 eigenvector matrices)
    groups: dict = {}
    for cf in failures:
        groups.setdefault((cf[0].get('harness'), cf[1]['name']), []).append(cf)
    for g in groups.values():
        g.sort(key=lambda cf: -len(cfg_key(cf[0])))
    ordered = []
    while any(groups.values()):
        for k in list(groups):
            if groups[k]:
                ordered.append(groups[k].pop(0))
    budget = getattr(prop, 'replay_budget', 14)
    for cfg, f in ordered:
        key = (cfg.get('harness'), f['name'], cfg_key({k: v for k, v in cfg.items() if not k.startswith('_')}))
        if key in seen:
            continue
        seen.add(key)
        k = match_known(pid, cfg, f['name'], f['model'].get('info'), known)
        if k is None and (len(violations) >= 3 or budget <= 0):
            continue
        if k is not None and any(k is kk for kk, *_ in known_hits):
            continue
        path = write_replay(pid, cfg, f, seed)
        if f.get('replayed'):
            verdict, tail = f['replayed'], f.get('detail', '')
        else:
            budget -= 1
            verdict, tail = run_replay(path)
        if verdict == 'reproduced':
            if k is not None:
                known_hits.append((k, cfg, f, path))
            else:
                violations.append((cfg, f, path, tail))
        else:
            unreproduced.append((cfg, f, path, verdict, tail))
    if violations:
        # non-reproducing counter-models of the same run are reported but do
        # not change the verdict
        pass

    printed = set()
    for k, cfg, f, path in known_hits:
        line = f'KNOWN-FINDING: property={pid} {k["what"]}'
        if line not in printed:
            print(line)
            printed.add(line)
    for cfg, f, path, tail in violations:
        print(f'VIOLATION property={pid} replay={path}')
        print(f'  harness={cfg.get("harness")} obligation={f["name"]} cfg={cfg_key(cfg)[:300]}')
        for line in tail.strip().splitlines()[-6:]:
            print('  | ' + line)
    for cfg, f, path, verdict, tail in unreproduced:
        print(f'INCONCLUSIVE property={pid} counter-model did not reproduce ({verdict}): '
              f'harness={cfg.get("harness")} obligation={f["name"]} replay={path}')
        for line in tail.strip().splitlines()[-4:]:
            print('  | ' + line)
    for cfg, inc in inconclusive[:10]:
        print(f'INCONCLUSIVE property={pid} solver unknown: harness={cfg.get("harness")} obligation={inc} cfg={cfg_key(cfg)[:200]}')
    for cfg in timeouts[:10]:
        print(f'INCONCLUSIVE property={pid} task timed out: cfg={cfg_key(cfg)[:200]}')
    for cfg, e in errors[:10]:
        print(f'HARNESS-ERROR property={pid} cfg={cfg_key(cfg)[:200]}\n{e}')

    wall = time.time() - t0
    nontriv = agg.paths_nontrivial
    ev = {
        'property_id': pid,
        'tier': tier,
        'seed': seed,
        'level': 'other',
        'coverage': {
            'explanation': prop.explanation() or (
                'Bounded symbolic execution of the real kfac sources on the symtorch shim; '
                'every obligation is decided by z3 (unsat of the negation under the path '
                'condition) on every feasible path within the stated bounds.'),
            'technique': 'bounded symbolic execution of the real source + SMT (z3 5.1.0)',
            'evaluations': agg.paths + (extra or {}).get('evaluations', 0),
            'distinct_nontrivial': nontriv + (extra or {}).get('distinct_nontrivial', 0),
            'rule': 'one evaluation = one z3-feasible execution path of one configuration '
                    '(distinct decision vector); non-trivial = the path made >= 1 symbolic '
                    'decision or carried >= 1 solver-checked obligation',
            'samples': (path_samples + agg.samples[:4] + (extra or {}).get('samples', [])[:4]) or [{'note': 'no sample'}],
            'configurations': len(cfgs),
            'configurations_skipped_after_violation': nskipped,
            'paths': agg.paths,
            'paths_aborted': agg.aborted,
            'forks': agg.forks,
            'obligations': agg.obligations + (extra or {}).get('obligations', 0),
            'discharged': agg.discharged + (extra or {}).get('discharged', 0),
            'inconclusive': agg.inconclusive + len(timeouts) + (extra or {}).get('inconclusive_n', 0),
            'witnesses': agg.witnesses,
            'assumed_feasible_branches': agg.assumed_feasible,
            'division_and_sqrt_side_conditions': agg.div_obligations,
            'obligation_names': agg.obligation_names,
            'solver_queries': agg.queries + (extra or {}).get('queries', 0),
            'solver_seconds': round(agg.solver_s + (extra or {}).get('solver_s', 0.0), 2),
            'per_harness': per_harness,
            'slowest_configurations': sorted(slow, reverse=True)[:5],
            'bounds': prop.bounds(tier),
            'functions_encoded': sorted(calls),
            'sources': loader.source_hashes(),
            'stubs': prop.stubs,
            'trusted_base': prop.trusted_base,
            'known_findings_reobserved': sorted({k['id'] for k, *_ in known_hits}),
            'extra': (extra or {}).get('report'),
            'exhaustive': False,
        },
        'assumptions': prop.assumptions,
        'wall_s': round(wall, 2),
        'violations': len(violations),
    }
    os.makedirs(EVIDENCE_DIR, exist_ok=True)
    with open(os.path.join(EVIDENCE_DIR, f'{pid}.json'), 'w') as f:
        json.dump(ev, f, indent=1, default=str)

    print(f'[{pid} {tier}] configs={len(cfgs)} paths={agg.paths} obligations='
          f'{ev["coverage"]["obligations"]} discharged={ev["coverage"]["discharged"]} '
          f'inconclusive={ev["coverage"]["inconclusive"]} witnesses={agg.witnesses} '
          f'queries={ev["coverage"]["solver_queries"]} solver_s={ev["coverage"]["solver_seconds"]} '
          f'wall={wall:.1f}s violations={len(violations)} known={len(known_hits)}')
    if violations:
        return EXIT_VIOLATION
    if errors or inconclusive or timeouts or unreproduced:
        return EXIT_INCONCLUSIVE
    if agg.witnesses == 0 and not (extra or {}).get('obligations'):
        print(f'HARNESS-ERROR property={pid} no reachability witness')
        return EXIT_INCONCLUSIVE
    return EXIT_OK
