"""symex -- symbolic scalars and a re-execution path explorer on top of z3.

The code under test is ordinary, uninstrumented Python.  Values that should be
universally quantified are `SymNum` / `SymBool` proxies around z3 terms.
Whenever Python needs a concrete truth value (`if`, `and`, `min`, ...) the
proxy's `__bool__` asks the `Engine` to *decide*: inside the recorded decision
prefix the recorded value is replayed, past it both outcomes are checked for
feasibility under the path condition, the untaken feasible one is pushed on a
work-list, and the path condition is extended.  `Engine.explore` re-executes
the harness until the work-list drains, i.e. until every z3-feasible path
within the bound has been covered.

In *concrete* mode (replay of a counter-model, shim validation) there is no
engine decision at all: `fresh_*` return plain Python numbers taken from the
model and everything runs as ordinary Python.
"""

from __future__ import annotations

import itertools
import math
import os
import time
from fractions import Fraction
from typing import Any, Callable

try:  # z3 is absent in /venv (replay interpreter); concrete mode needs none
    import z3
except ImportError:  # pragma: no cover
    z3 = None  # type: ignore


class PathAbort(BaseException):
    """The current path is infeasible / cut by an assumption."""


class NotEncodable(BaseException):
    """The code under test did something the encoding cannot express."""


class Inconclusive(BaseException):
    """Solver returned unknown where a verdict was required."""


class ExplorationLimit(BaseException):
    """Path budget exhausted."""


_ENGINE: 'Engine | None' = None
_DEBUG = bool(os.environ.get('VK_DEBUG'))


def engine() -> 'Engine':
    if _ENGINE is None:
        raise RuntimeError('no active symex engine')
    return _ENGINE


def have_engine() -> bool:
    return _ENGINE is not None


# --------------------------------------------------------------------------
# float lifting


def lift(x: Any) -> Any:
    """Lift a concrete python number to an exact rational (A-real).

    A python float entering symbolic arithmetic stands for the simplest
    rational that rounds to it: 0.95 -> 19/20, 0.333.. -> 1/3.
    """
    if isinstance(x, bool):
        return int(x)
    if isinstance(x, (int, Fraction)):
        return x
    if isinstance(x, float):
        if x != x or x in (float('inf'), float('-inf')):
            raise NotEncodable(f'non-finite float {x}')
        if x == int(x) and abs(x) < 2**53:
            return int(x)
        fx = Fraction(x)
        for d in (10**3, 10**6, 10**9, 10**12):
            f = fx.limit_denominator(d)
            if float(f) == x:
                return f
        return fx
    raise NotEncodable(f'cannot lift {type(x)}')


def _z(x: Any):
    """python number / SymNum -> z3 arith term."""
    if isinstance(x, SymNum):
        return x.e
    x = lift(x)
    if isinstance(x, int):
        return z3.IntVal(x)
    return z3.RealVal(str(x.numerator) + '/' + str(x.denominator))


def _is_num(x: Any) -> bool:
    return isinstance(x, (int, float, Fraction)) and not isinstance(x, bool) \
        or isinstance(x, bool)


def _is_intsort(e) -> bool:
    return e.sort().kind() == z3.Z3_INT_SORT


def _val_of(e):
    """z3 numeral -> python int/Fraction, else None."""
    if z3.is_int_value(e):
        return e.as_long()
    if z3.is_rational_value(e):
        return Fraction(e.numerator_as_long(), e.denominator_as_long())
    if z3.is_bv_value(e):
        return e.as_long()
    if z3.is_string_value(e):
        return e.as_string()
    return None


def wrap(e):
    """z3 arith term -> python number if numeral else SymNum."""
    v = _val_of(e)
    if v is not None:
        return v
    return SymNum(e)


class SymBool:
    __slots__ = ('e',)

    def __init__(self, e):
        self.e = e

    def __bool__(self) -> bool:
        return engine().decide(self.e)

    def __and__(self, o):
        return mk_bool(z3.And(self.e, _zb(o)))

    __rand__ = __and__

    def __or__(self, o):
        return mk_bool(z3.Or(self.e, _zb(o)))

    __ror__ = __or__

    def __invert__(self):
        return mk_bool(z3.Not(self.e))

    def __eq__(self, o):  # type: ignore
        return mk_bool(self.e == _zb(o))

    def __ne__(self, o):  # type: ignore
        return mk_bool(self.e != _zb(o))

    __hash__ = None  # type: ignore

    def __repr__(self):
        return f'SymBool({self.e})'


def _zb(x):
    if isinstance(x, SymBool):
        return x.e
    if isinstance(x, bool):
        return z3.BoolVal(x)
    if z3 is not None and isinstance(x, z3.BoolRef):
        return x
    raise NotEncodable(f'not a boolean: {type(x)}')


def mk_bool(e):
    if z3.is_true(e):
        return True
    if z3.is_false(e):
        return False
    return SymBool(e)


def Not(x):
    if isinstance(x, SymBool):
        return ~x
    return not x


def And(*xs):
    if all(isinstance(x, bool) for x in xs):
        return all(xs)
    if any(x is False for x in xs):
        return False
    return mk_bool(z3.And([_zb(x) for x in xs if x is not True]))


def Or(*xs):
    if all(isinstance(x, bool) for x in xs):
        return any(xs)
    if any(x is True for x in xs):
        return True
    return mk_bool(z3.Or([_zb(x) for x in xs if x is not False]))


def Implies(a, b):
    return Or(Not(a), b)


def ite(c, a, b):
    """Non-forking conditional on scalars."""
    if isinstance(c, bool):
        return a if c else b
    if isinstance(a, (bool, SymBool)) or isinstance(b, (bool, SymBool)):
        return mk_bool(z3.If(_zb(c), _zb(a), _zb(b)))
    za, zb = _z(a), _z(b)
    if _is_intsort(za) != _is_intsort(zb):
        za, zb = _toreal(za), _toreal(zb)
    return wrap(z3.If(_zb(c), za, zb))


def _toreal(e):
    return z3.ToReal(e) if _is_intsort(e) else e


class SymNum:
    """Symbolic integer or real (sort taken from the z3 term)."""

    __slots__ = ('e',)
    __array_priority__ = 1000

    def __init__(self, e):
        self.e = e

    @property
    def is_int(self) -> bool:
        return _is_intsort(self.e)

    # -- arithmetic -------------------------------------------------------
    def _bin(self, o, f, swap=False):
        if not (isinstance(o, SymNum) or _is_num(o)):
            return NotImplemented
        a, b = self.e, _z(o)
        if _is_intsort(a) != _is_intsort(b):
            a, b = _toreal(a), _toreal(b)
        if swap:
            a, b = b, a
        return wrap(f(a, b))

    def __add__(self, o):
        if _is_num(o) and o == 0:
            return self
        return self._bin(o, lambda a, b: a + b)

    def __radd__(self, o):
        if _is_num(o) and o == 0:
            return self
        return self._bin(o, lambda a, b: a + b, True)

    def __sub__(self, o):
        if _is_num(o) and o == 0:
            return self
        return self._bin(o, lambda a, b: a - b)

    def __rsub__(self, o):
        return self._bin(o, lambda a, b: a - b, True)

    def __mul__(self, o):
        if _is_num(o):
            if o == 0:
                return 0
            if o == 1:
                return self
        return self._bin(o, lambda a, b: a * b)

    def __rmul__(self, o):
        if _is_num(o):
            if o == 0:
                return 0
            if o == 1:
                return self
        return self._bin(o, lambda a, b: a * b, True)

    def __neg__(self):
        return wrap(-self.e)

    def __pos__(self):
        return self

    def __abs__(self):
        # canonical polynomial form, so that |p| and |q| are the same term
        # whenever p and q are the same polynomial
        p = self.e
        if not _has_div(p):
            p = z3.simplify(p, som=True, som_blowup=1000000)
            if _ENGINE is not None and _ENGINE.concrete is None and p.get_id() != self.e.get_id():
                # a tautology (simplify preserves equivalence) that lets side
                # conditions about |p| use what the path condition says about
                # the original term
                _ENGINE.pc.append(p == self.e)
                _ENGINE.solver.add(p == self.e)
        r = wrap(z3.If(p >= 0, p, -p))
        if _ENGINE is not None:
            _ENGINE.abs_log.append((self, r, _ENGINE.tagger() if _ENGINE.tagger else None))
        return r

    def __truediv__(self, o):
        if not (isinstance(o, SymNum) or _is_num(o)):
            return NotImplemented
        if _is_num(o):
            o = lift(o)
            if o == 0:
                raise ZeroDivisionError('division by zero')
            return wrap(_toreal(self.e) / _toreal(_z(o)))
        engine().note_division(o.e)
        return wrap(_toreal(self.e) / _toreal(o.e))

    def __rtruediv__(self, o):
        if not _is_num(o):
            return NotImplemented
        engine().note_division(self.e)
        if o == 0:
            return 0
        return wrap(_toreal(_z(o)) / _toreal(self.e))

    def __floordiv__(self, o):
        return _floordiv(self, o)

    def __rfloordiv__(self, o):
        return _floordiv(o, self)

    def __mod__(self, o):
        return _mod(self, o)

    def __rmod__(self, o):
        return _mod(o, self)

    def __pow__(self, n):
        if isinstance(n, int) and not isinstance(n, bool) and 0 <= n <= 8:
            r: Any = 1
            for _ in range(n):
                r = r * self
            return r
        raise NotEncodable(f'pow with exponent {n!r}')

    def __rpow__(self, b):
        raise NotEncodable('symbolic exponent')

    # -- comparisons ------------------------------------------------------
    def _cmp(self, o, f):
        if not (isinstance(o, SymNum) or _is_num(o)):
            return NotImplemented
        a, b = self.e, _z(o)
        if _is_intsort(a) != _is_intsort(b):
            a, b = _toreal(a), _toreal(b)
        e = f(a, b)
        es = z3.simplify(e)
        if z3.is_true(es):
            return True
        if z3.is_false(es):
            return False
        return SymBool(e)

    def __lt__(self, o):
        return self._cmp(o, lambda a, b: a < b)

    def __le__(self, o):
        return self._cmp(o, lambda a, b: a <= b)

    def __gt__(self, o):
        return self._cmp(o, lambda a, b: a > b)

    def __ge__(self, o):
        return self._cmp(o, lambda a, b: a >= b)

    def __eq__(self, o):  # type: ignore
        if o is None:
            return False
        return self._cmp(o, lambda a, b: a == b)

    def __ne__(self, o):  # type: ignore
        if o is None:
            return True
        return self._cmp(o, lambda a, b: a != b)

    __hash__ = None  # type: ignore

    def __bool__(self):
        return bool(self != 0)

    # -- concretisation ---------------------------------------------------
    def __index__(self):
        if not self.is_int:
            raise NotEncodable('__index__ on a symbolic real')
        return engine().concretize_int(self.e)

    def __int__(self):
        t = sym_int(self)
        if isinstance(t, int):
            return t
        return engine().concretize_int(t.e)

    def __float__(self):
        raise NotEncodable('float() of a symbolic number')

    def __round__(self, nd=None):
        if nd is not None:
            raise NotEncodable('round with digits')
        if self.is_int:
            return self
        fl = z3.ToInt(self.e)
        fr = self.e - z3.ToReal(fl)
        half = z3.RealVal('1/2')
        return wrap(z3.If(fr < half, fl, z3.If(
            fr > half, fl + 1, z3.If(fl % 2 == 0, fl, fl + 1))))

    def __repr__(self):
        s = str(self.e)
        return f'Sym({s if len(s) < 80 else s[:77] + "..."})'


def _has_div(e) -> bool:
    seen, stack = set(), [e]
    while stack:
        t = stack.pop()
        k = t.get_id()
        if k in seen:
            continue
        seen.add(k)
        if z3.is_app(t):
            if t.decl().kind() == z3.Z3_OP_DIV:
                return True
            stack.extend(t.children())
    return False


def _floordiv(a, b):
    za, zb = _z(a), _z(b)
    if not (_is_intsort(za) and _is_intsort(zb)):
        raise NotEncodable('floor division on reals')
    if isinstance(b, SymNum):
        engine().note_division(zb)
    elif b == 0:
        raise ZeroDivisionError('integer division by zero')
    return wrap(z3.simplify(z3.If(zb > 0, za / zb, (-za) / (-zb))))


def _mod(a, b):
    za, zb = _z(a), _z(b)
    if not (_is_intsort(za) and _is_intsort(zb)):
        raise NotEncodable('mod on reals')
    if isinstance(b, SymNum):
        engine().note_division(zb)
    elif b == 0:
        raise ZeroDivisionError('integer modulo by zero')
    m = za % zb
    return wrap(z3.simplify(z3.If(zb > 0, m, z3.If(m == 0, m, m + zb))))


def sym_int(x):
    """Python int(): truncation toward zero; symbolic result stays symbolic."""
    if isinstance(x, SymNum):
        if x.is_int:
            return x
        fl = z3.ToInt(x.e)
        return wrap(z3.If(z3.Or(x.e >= 0, z3.ToReal(fl) == x.e), fl, fl + 1))
    return int(x)


def sym_round(x, nd=None):
    if isinstance(x, SymNum):
        return x.__round__(nd)
    return round(x) if nd is None else round(x, nd)


class SymMath:
    """Stand-in for the `math` module inside modules under test."""

    def __getattr__(self, name):
        return getattr(math, name)

    @staticmethod
    def sqrt(x):
        if isinstance(x, SymNum):
            return engine().sqrt(x)
        return math.sqrt(x)


def _max2(a, b, is_max):
    """Canonical non-forking max/min of two scalars (numeral goes second)."""
    if _is_num(a) and _is_num(b):
        a, b = lift(a), lift(b)
        return (a if a >= b else b) if is_max else (a if a <= b else b)
    if _is_num(a):
        a, b = b, a
    za, zb = _z(a), _z(b)
    if _is_intsort(za) != _is_intsort(zb):
        za, zb = _toreal(za), _toreal(zb)
    return wrap(z3.If(za >= zb, za, zb) if is_max else z3.If(za <= zb, za, zb))


def sym_min(*xs):
    r = xs[0]
    for x in xs[1:]:
        r = _max2(r, x, False)
    return r


def sym_max(*xs):
    r = xs[0]
    for x in xs[1:]:
        r = _max2(r, x, True)
    return r


# --------------------------------------------------------------------------
# clearing denominators


class _Frac:
    __slots__ = ('n', 'd')

    def __init__(self, n, d):
        self.n, self.d = n, d


def clear_denominators(e, side: list | None = None):
    """Rewrite a z3 real term over + - * / ite into numerator/denominator.

    Returns (num, den) with den a product of the original divisors.  The caller
    is responsible for den != 0 (recorded as division obligations when the
    term was built).
    """
    memo: dict[int, tuple] = {}
    one = z3.RealVal(1)

    def walk(t):
        k = t.get_id()
        if k in memo:
            return memo[k]
        r = None
        if z3.is_app(t):
            dk = t.decl().kind()
            ch = t.children()
            if dk == z3.Z3_OP_ADD or dk == z3.Z3_OP_SUB:
                parts = [walk(c) for c in ch]
                if all(p[1] is one for p in parts):
                    r = (t, one)
                else:
                    n, d = parts[0]
                    for (n2, d2) in parts[1:]:
                        if d2 is one:
                            n = (n + n2 * d) if dk == z3.Z3_OP_ADD else (n - n2 * d)
                        elif d is one:
                            n = (n * d2 + n2) if dk == z3.Z3_OP_ADD else (n * d2 - n2)
                            d = d2
                        elif d.get_id() == d2.get_id():
                            n = (n + n2) if dk == z3.Z3_OP_ADD else (n - n2)
                        else:
                            n = (n * d2 + n2 * d) if dk == z3.Z3_OP_ADD else (n * d2 - n2 * d)
                            d = d * d2
                    r = (n, d)
            elif dk == z3.Z3_OP_UMINUS:
                n, d = walk(ch[0])
                r = (t, one) if d is one else (-n, d)
            elif dk == z3.Z3_OP_MUL:
                parts = [walk(c) for c in ch]
                if all(p[1] is one for p in parts):
                    r = (t, one)
                else:
                    n, d = parts[0]
                    for (n2, d2) in parts[1:]:
                        n = n * n2
                        d = d2 if d is one else (d if d2 is one else d * d2)
                    r = (n, d)
            elif dk == z3.Z3_OP_DIV:
                (n1, d1), (n2, d2) = walk(ch[0]), walk(ch[1])
                # (n1/d1)/(n2/d2) = n1*d2 / (d1*n2)
                n = n1 if d2 is one else n1 * d2
                d = n2 if d1 is one else d1 * n2
                r = (n, d)
            elif dk == z3.Z3_OP_ITE and z3.is_arith(t):
                (n1, d1), (n2, d2) = walk(ch[1]), walk(ch[2])
                c = ch[0]
                if d1 is one and d2 is one:
                    r = (t, one)
                else:
                    r = (z3.If(c, n1, n2), z3.If(c, d1, d2))
            elif dk == z3.Z3_OP_TO_REAL:
                r = (t, one)
        if r is None:
            r = (t, one)
        memo[k] = r
        return r

    return walk(e)


def recip_abstract(es, table=None):
    """Replace every division a/b by a * R_b with one fresh real R_b per
    (canonicalised) divisor b.  An identity that holds with the R_b free holds
    a fortiori with R_b = 1/b.  Returns (terms, hyps) where hyps are the
    defining equations R_b * b == 1."""
    table = {} if table is None else table
    memo: dict[int, object] = {}

    def walk(t):
        k = t.get_id()
        if k in memo:
            return memo[k]
        r = t
        if z3.is_app(t) and t.num_args() > 0:
            ch = [walk(c) for c in t.children()]
            if t.decl().kind() == z3.Z3_OP_DIV and _val_of(z3.simplify(ch[1])) not in (None, 0):
                # division by a numeral is a multiplication by a constant
                c = _val_of(z3.simplify(ch[1]))
                c = Fraction(1) / Fraction(c)
                r = ch[0] * z3.RealVal(f'{c.numerator}/{c.denominator}')
            elif t.decl().kind() == z3.Z3_OP_DIV:
                b = z3.simplify(ch[1], som=True, som_blowup=1000000)
                key = b.get_id()
                if key not in table:
                    table[key] = (z3.Real(f'recip!{len(table)}'), b)
                r = ch[0] * table[key][0]
            elif any(c.get_id() != o.get_id() for c, o in zip(ch, t.children())):
                r = t.decl()(*ch)
        memo[k] = r
        return r
    out = [walk(e) for e in es]
    hyps = [rv * b == 1 for (rv, b) in table.values()]
    return out, hyps


# --------------------------------------------------------------------------
# term abstraction (sound over-approximation for side conditions)


def dag_sizes(roots):
    size: dict[int, int] = {}
    stack = [(r, False) for r in roots]
    while stack:
        t, done = stack.pop()
        k = t.get_id()
        if k in size:
            continue
        if done:
            size[k] = 1 + sum(size[c.get_id()] for c in t.children())
        else:
            stack.append((t, True))
            for c in t.children():
                if c.get_id() not in size:
                    stack.append((c, False))
    return size


_POLY_OPS = None


def abstract_big(formulas, thr: int = 25):
    """Replace every maximal polynomial sub-term larger than `thr` DAG nodes
    by a fresh real, consistently across all formulas.  The result is weaker
    than the input, so `unsat` carries over to the original."""
    global _POLY_OPS
    if _POLY_OPS is None:
        _POLY_OPS = {z3.Z3_OP_ADD, z3.Z3_OP_MUL, z3.Z3_OP_SUB}
    size = dag_sizes(formulas)
    pairs, seen = [], set()
    stack = list(formulas)
    while stack:
        t = stack.pop()
        k = t.get_id()
        if k in seen:
            continue
        seen.add(k)
        if not z3.is_app(t):
            continue
        if (z3.is_arith(t) and t.decl().kind() in _POLY_OPS
                and size[k] > thr and not _is_intsort(t)):
            pairs.append((t, z3.Real(f'abs!{k}')))
            continue
        stack.extend(t.children())
    if not pairs:
        return list(formulas), 0
    return [z3.substitute(f, pairs) for f in formulas], len(pairs)


# --------------------------------------------------------------------------
# the engine


def hard_check(solver, timeout_ms, *assumptions):
    """solver.check().  z3's own timeout is advisory; a watchdog *thread* is
    not an option (python code running in a second thread while ctypes has
    released the GIL inside z3 lets the garbage collector free z3 objects
    concurrently -> heap corruption, observed).  The hard limit is therefore
    enforced one level up: every task runs in a forked child that the pool
    kills at its deadline (reported as inconclusive)."""
    try:
        return solver.check(*assumptions)
    except z3.Z3Exception:
        return z3.unknown


class Stats:
    def __init__(self):
        self.paths = 0
        self.paths_nontrivial = 0
        self.aborted = 0
        self.decisions = 0
        self.forks = 0
        self.queries = 0
        self.solver_s = 0.0
        self.obligations = 0
        self.discharged = 0
        self.inconclusive = 0
        self.witnesses = 0
        self.assumed_feasible = 0
        self.div_obligations = 0
        self.samples: list = []
        self.obligation_names: dict[str, int] = {}

    def merge(self, o: 'Stats'):
        for k, v in o.__dict__.items():
            if isinstance(v, (int, float)):
                setattr(self, k, getattr(self, k) + v)
        for k, v in o.obligation_names.items():
            self.obligation_names[k] = self.obligation_names.get(k, 0) + v
        for s in o.samples:
            if len(self.samples) < 12:
                self.samples.append(s)

    def as_dict(self):
        d = dict(self.__dict__)
        d['solver_s'] = round(self.solver_s, 3)
        return d


class CounterModel:
    """A solver model for a failed obligation (to be replayed)."""

    def __init__(self, name, values, funcs, info=None):
        self.name = name
        self.values = values  # symbol name -> int/Fraction/bool
        self.funcs = funcs    # func name -> {'table': {arg: val}, 'else': val}
        self.info = info or {}

    def to_json(self):
        def enc(v):
            if isinstance(v, Fraction):
                return {'q': [str(v.numerator), str(v.denominator)]}
            return v
        return {
            'obligation': self.name,
            'values': {k: enc(v) for k, v in self.values.items()},
            'funcs': {
                f: {'table': {str(a): enc(v) for a, v in t['table'].items()},
                    'else': enc(t['else'])}
                for f, t in self.funcs.items()
            },
            'info': self.info,
        }

    @staticmethod
    def dec(v):
        if isinstance(v, dict) and 'q' in v:
            return Fraction(int(v['q'][0]), int(v['q'][1]))
        return v

    @classmethod
    def from_json(cls, d):
        vals = {k: cls.dec(v) for k, v in d['values'].items()}
        funcs = {
            f: {'table': {int(a): cls.dec(v) for a, v in t['table'].items()},
                'else': cls.dec(t['else'])}
            for f, t in d.get('funcs', {}).items()
        }
        return cls(d['obligation'], vals, funcs, d.get('info'))


class Failure:
    """An obligation with a counter-model (not yet replayed)."""

    def __init__(self, name, model: CounterModel, detail=''):
        self.name = name
        self.model = model
        self.detail = detail


class Engine:
    def __init__(self, seed: int = 0, check_timeout_ms: int = 1500,
                 oblige_timeout_ms: int = 60000, max_paths: int = 200000,
                 concrete: CounterModel | None = None,
                 stop_on_failure: bool = True, tol: float = 0.0,
                 backend: str = 'z3'):
        self.backend = backend
        self.seed = seed
        self.check_timeout_ms = check_timeout_ms
        self.oblige_timeout_ms = oblige_timeout_ms
        self.max_paths = max_paths
        self.concrete = concrete
        self.stop_on_failure = stop_on_failure
        self.tol = tol
        self.rung_ms = 10000   # per-rung limit of the obligation portfolio
        self.randomize = 0
        self.as_float = False
        self.used_values: dict = {}
        self.concrete_notes: list = []
        self.sqrt_exact_max_size = 60
        self.sqrt_log: list = []
        self.abs_log: list = []
        self.tagger = None
        self.path_samples: list = []
        self.stats = Stats()
        self.failures: list[Failure] = []
        self.inconclusives: list[str] = []
        self.concrete_failures: list[str] = []
        # per path
        self.prefix: list[bool] = []
        self.trace: list[bool] = []
        self.pc: list = []
        self.solver = None
        self.nl_mode = False
        self.decided: dict = {}
        self.model = None
        self.pending_div: list = []
        self.auto = itertools.count()
        self.funcs: dict[str, Any] = {}
        self.func_apps: dict[str, list] = {}
        self.symbols: dict[str, Any] = {}
        self.worklist: list[list[bool]] = []
        self.path_obligations = 0
        self.path_info: dict = {}
        self.sqrt_memo: list = []

    # -- symbols ----------------------------------------------------------
    def autoname(self, prefix: str) -> str:
        return f'{prefix}!{next(self.auto)}'

    def _cval(self, name, default, kind, data):
        assert self.concrete is not None
        if self.randomize and data:
            import random
            rnd = random.Random(f'{self.seed}/{self.randomize}/{name}')
            if kind == 'real':
                v = Fraction(rnd.randint(-12, 12), 4)
            elif kind == 'int':
                v = rnd.randint(0, 4)
            else:
                v = rnd.random() < 0.5
        else:
            v = self.concrete.values.get(name, default)
        self.used_values[name] = v
        if kind == 'real' and self.as_float:
            return float(v)
        return v

    def fresh_real(self, name: str, data: bool = False):
        if self.concrete is not None:
            return self._cval(name, 0, 'real', data)
        s = z3.Real(name)
        self.symbols[name] = s
        return SymNum(s)

    def fresh_int(self, name: str, data: bool = False):
        if self.concrete is not None:
            return int(self._cval(name, 0, 'int', data))
        s = z3.Int(name)
        self.symbols[name] = s
        return SymNum(s)

    def fresh_bool(self, name: str, data: bool = False):
        if self.concrete is not None:
            return bool(self._cval(name, False, 'bool', data))
        s = z3.Bool(name)
        self.symbols[name] = s
        return SymBool(s)

    def fresh_func(self, name: str, real: bool = True) -> Callable:
        """Uninterpreted function Int -> Real (or Int -> Int)."""
        if self.concrete is not None:
            t = self.concrete.funcs.get(name, {'table': {}, 'else': 0})

            def cf(k):
                return t['table'].get(int(k), t['else'])
            cf.__name__ = name
            return cf
        f = z3.Function(name, z3.IntSort(),
                        z3.RealSort() if real else z3.IntSort())
        self.funcs[name] = f
        apps = self.func_apps.setdefault(name, [])

        def sf(k):
            zk = _z(k)
            if not _is_intsort(zk):
                raise NotEncodable('uninterpreted function on a real')
            apps.append(zk)
            return SymNum(f(zk))
        sf.__name__ = name
        return sf

    # -- path condition ---------------------------------------------------
    def _add(self, c):
        self.pc.append(c)
        self.solver.add(c)
        self.model = None

    def _cvc(self, assertions, timeout_ms):
        from vkit import cvc
        consts = [c for c in self.symbols.values() if z3.is_bv(c) or z3.is_bool(c)]
        st, vals, dt = cvc.check(assertions, consts, timeout_ms)
        self.stats.queries += 1
        self.stats.solver_s += dt
        if _DEBUG:
            print(f'[q cvc5 {dt:.2f}s {st}]', flush=True)
        if st == 'sat':
            return 'sat', cvc.ValModel(consts, vals or {})
        return st, None

    def _check(self, extra=None):
        if self.backend == 'cvc5':
            return self._cvc(self.pc + ([extra] if extra is not None else []),
                             self.check_timeout_ms)
        r = z3.unknown
        if not self.nl_mode:
            self.stats.queries += 1
            t = time.time()
            if extra is None:
                r = self.solver.check()
            else:
                r = self.solver.check(extra)
            self.stats.solver_s += time.time() - t
            if _DEBUG:
                print(f'[q incr {time.time() - t:.2f}s {r}]', flush=True)
            if r == z3.sat:
                return 'sat', self.solver.model()
            if r == z3.unsat:
                return 'unsat', None
            # the incremental core is weak on non-linear arithmetic: use
            # one-shot solvers for the rest of this path
            self.nl_mode = True
        s = z3.Solver()
        s.set('timeout', self.check_timeout_ms)
        s.add(self.pc)
        if extra is not None:
            s.add(extra)
        t = time.time()
        r = hard_check(s, self.check_timeout_ms)
        self.stats.solver_s += time.time() - t
        self.stats.queries += 1
        if _DEBUG:
            print(f'[q fresh {time.time() - t:.2f}s {r}]', flush=True)
        if r == z3.sat:
            return 'sat', s.model()
        return str(r), None

    def decide(self, e) -> bool:
        if self.concrete is not None:
            raise RuntimeError('symbolic decision in concrete mode')
        es = z3.simplify(e)
        if z3.is_true(es):
            return True
        if z3.is_false(es):
            return False
        # the same term decided again on this path: implied by the path condition
        k = e.get_id()
        if k in self.decided:
            return self.decided[k][1]
        v = self._decide(e)
        # keep the terms alive: z3 recycles AST ids of collected terms
        self.decided[k] = (e, v)
        ne = z3.Not(e)
        self.decided[ne.get_id()] = (ne, not v)
        return v

    def _decide(self, e) -> bool:
        self.flush_divisions()
        self.stats.decisions += 1
        i = len(self.trace)
        if i < len(self.prefix):
            v = self.prefix[i]
            if not isinstance(v, bool):
                raise RuntimeError('non-deterministic re-execution')
            self.trace.append(v)
            self._add(e if v else z3.Not(e))
            return v
        # new decision: which outcomes are feasible?
        guess = None
        if self.model is not None:
            mv = self.model.eval(e, model_completion=True)
            if z3.is_true(mv):
                guess = True
            elif z3.is_false(mv):
                guess = False
        if guess is None:
            r, m = self._check(e)
            if r == 'sat':
                guess = True
                self.model = m
            elif r == 'unsat':
                # forced False
                self.trace.append(False)
                self._add(z3.Not(e))
                return False
            else:
                self.stats.assumed_feasible += 1
                guess = True
        keep_model = self.model
        other = z3.Not(e) if guess else e
        r, m = self._check(other)
        if r == 'unsat':
            self.trace.append(guess)
            self._add(e if guess else z3.Not(e))
            self.model = keep_model
            return guess
        if r != 'sat':
            self.stats.assumed_feasible += 1
        self.stats.forks += 1
        # take True first (deterministic), queue the other
        if len(self.worklist) + self.stats.paths > self.max_paths:
            raise ExplorationLimit('too many paths')
        self.worklist.append(self.trace + [False])
        self.trace.append(True)
        self._add(e)
        self.model = keep_model if guess else (m if r == 'sat' else None)
        return True

    def assume(self, c, check: bool = True):
        """Harness precondition."""
        if isinstance(c, bool):
            if not c:
                raise PathAbort('assumption false')
            return
        if self.concrete is not None:
            raise RuntimeError('symbolic assume in concrete mode')
        self.flush_divisions()
        self._add(_zb(c))
        if check:
            r, m = self._check()
            if r == 'unsat':
                raise PathAbort('assumption infeasible')
            if r == 'sat':
                self.model = m

    def concretize_int(self, e) -> int:
        """Fork over the feasible values of an integer term (range-bounded)."""
        e = z3.simplify(e)
        v = _val_of(e)
        if v is not None:
            return int(v)
        n = 0
        while True:
            n += 1
            if n > 4096:
                raise NotEncodable('unbounded concretisation')
            i = len(self.trace)
            if i < len(self.prefix):
                item = self.prefix[i]
                if not isinstance(item, tuple):
                    raise RuntimeError('non-deterministic re-execution')
                v = item[1]
                self.trace.append(item)
            else:
                self.flush_divisions()
                if self.model is None:
                    r, m = self._check()
                    if r != 'sat':
                        raise PathAbort('infeasible at concretisation')
                    self.model = m
                v = _val_of(self.model.eval(e, model_completion=True))
                if v is None:
                    raise NotEncodable('no numeral for concretisation')
                v = int(v)
                self.trace.append(('v', v))
            if self.decide(e == z3.IntVal(v)):
                return v

    # -- division / sqrt obligations -------------------------------------
    def note_division(self, den):
        if self.concrete is not None:
            return
        self.pending_div.append(den)

    def flush_divisions(self):
        if not self.pending_div:
            return
        dens, self.pending_div = self.pending_div, []
        # de-duplicate
        seen, uniq = set(), []
        for d in dens:
            if d.get_id() not in seen:
                seen.add(d.get_id())
                uniq.append(d)
        self.stats.div_obligations += len(uniq)
        cond = z3.And([d != 0 for d in uniq])
        self._oblige('nonzero-denominator', cond, kind='div')
        for d in uniq:
            self.pc.append(d != 0)
            self.solver.add(d != 0)

    def sqrt(self, x: SymNum):
        """math.sqrt contract: fresh r >= 0 (with r*r == x when x is small);
        the argument is logged so harnesses can check it (argument congruence)
        and obliged to be non-negative."""
        self.flush_divisions()
        self._oblige('sqrt-argument-nonnegative', x.e >= 0, kind='div')
        tag = self.tagger() if self.tagger else None
        for (arg, r) in self.sqrt_memo:
            if arg.get_id() == x.e.get_id():
                self.sqrt_log.append((x, SymNum(r), tag))
                return SymNum(r)
        # congruence: an argument provably equal to an earlier one gets the
        # same result symbol
        for (arg, r) in self.sqrt_memo:
            (n1, d1), (n2, d2) = clear_denominators(_toreal(arg)), clear_denominators(_toreal(x.e))
            res, _ = self._one_shot(self.pc + [n1 * d2 != n2 * d1], min(self.oblige_timeout_ms, 20000))
            if res == 'unsat':
                self.sqrt_log.append((x, SymNum(r), tag))
                return SymNum(r)
        r = z3.Real(self.autoname('sqrt'))
        self.symbols[str(r)] = r
        self.sqrt_memo.append((x.e, r))
        self.sqrt_log.append((x, SymNum(r), self.tagger() if self.tagger else None))
        if dag_sizes([x.e])[x.e.get_id()] <= self.sqrt_exact_max_size:
            self._add(z3.And(r >= 0, r * r == _toreal(x.e)))
        else:
            self._add(r >= 0)
        return SymNum(r)

    # -- obligations ------------------------------------------------------
    def witness(self, name: str):
        """Reachability twin: the path condition here must be satisfiable."""
        if self.concrete is not None:
            self.stats.witnesses += 1
            return
        self.flush_divisions()
        if self.model is None:
            r, m = self._check()
            if r == 'unsat':
                raise PathAbort('unreachable witness')
            if r != 'sat':
                return
            self.model = m
        self.stats.witnesses += 1

    def oblige(self, name: str, cond, info: dict | None = None):
        """cond must hold for every value satisfying the path condition."""
        self.path_obligations += 1
        if isinstance(cond, bool):
            self.stats.obligations += 1
            self.stats.obligation_names[name] = \
                self.stats.obligation_names.get(name, 0) + 1
            if cond:
                self.stats.discharged += 1
                return True
            if self.concrete is not None:
                self.concrete_failures.append(name)
                if info:
                    self.concrete_notes.append(f'{name}: {info}')
                return False
            # concretely false on a feasible path: any model of pc is a witness
            self.flush_divisions()
            r, m = self._check()
            if r == 'unsat':
                self.stats.discharged += 1
                return True
            if r != 'sat':
                self.stats.inconclusive += 1
                self.inconclusives.append(name)
                return None
            self._fail(name, m, info)
            return False
        if self.concrete is not None:
            raise RuntimeError('symbolic obligation in concrete mode')
        self.flush_divisions()
        return self._oblige(name, _zb(cond), info=info)

    def oblige_eq(self, name: str, a, b, info: dict | None = None):
        """Identity obligation a == b on scalars (portfolio of 2.7)."""
        if self.concrete is not None or (_is_num(a) and _is_num(b)):
            return self.oblige(name, self.ceq(a, b), info)
        self.path_obligations += 1
        self.flush_divisions()
        za, zb = _toreal(_z(a)), _toreal(_z(b))
        (n1, d1), (n2, d2) = clear_denominators(za), clear_denominators(zb)
        cleared = (n1 * d2 == n2 * d1)
        return self._oblige(name, za == zb, info=info, alt=cleared, diffs=[za - zb])

    def oblige_all_eq(self, name: str, pairs, info: dict | None = None):
        """Conjunction of identities, decided as one query."""
        pairs = [(a, b) for (a, b) in pairs]
        if self.concrete is not None or all(
                _is_num(a) and _is_num(b) for a, b in pairs):
            return self.oblige(
                name, all(self.ceq(a, b) for a, b in pairs), info)
        self.path_obligations += 1
        self.flush_divisions()
        nat, clr, diffs = [], [], []
        for a, b in pairs:
            if _is_num(a) and _is_num(b):
                if lift(a) != lift(b):
                    nat.append(z3.BoolVal(False))
                    clr.append(z3.BoolVal(False))
                continue
            za, zb = _toreal(_z(a)), _toreal(_z(b))
            if za.get_id() == zb.get_id():
                continue
            (n1, d1), (n2, d2) = clear_denominators(za), clear_denominators(zb)
            nat.append(za == zb)
            clr.append(n1 * d2 == n2 * d1)
            diffs.append(za - zb)
        if not nat:
            self.stats.obligations += 1
            self.stats.discharged += 1
            self.stats.obligation_names[name] = \
                self.stats.obligation_names.get(name, 0) + 1
            return True
        return self._oblige(name, z3.And(nat), info=info, alt=z3.And(clr), diffs=diffs)

    def ceq(self, a, b, scale: float = 1.0) -> bool:
        """Concrete equality; with a tolerance when replaying on floats."""
        if self.tol and (isinstance(a, float) or isinstance(b, float)):
            a, b = float(a), float(b)
            if a != a or b != b:
                return False
            return abs(a - b) <= self.tol * scale * max(1.0, abs(a), abs(b))
        return lift(a) == lift(b)

    def _one_shot(self, assertions, timeout_ms):
        if self.backend == 'cvc5':
            return self._cvc(assertions, timeout_ms)
        s = z3.Solver()
        s.set('timeout', timeout_ms)
        s.set('random_seed', self.seed & 0x7fffffff)
        s.add(assertions)
        self.stats.queries += 1
        t = time.time()
        r = hard_check(s, timeout_ms)
        self.stats.solver_s += time.time() - t
        if _DEBUG:
            print(f'[q one-shot {time.time() - t:.2f}s {r}] n={len(assertions)}', flush=True)
        return str(r), (s.model() if r == z3.sat else None)

    def _oblige(self, name, cond, kind='prop', info=None, alt=None, diffs=None):
        self.stats.obligations += 1
        self.stats.obligation_names[name] = \
            self.stats.obligation_names.get(name, 0) + 1
        cond_s = z3.simplify(cond)
        if z3.is_true(cond_s):
            self.stats.discharged += 1
            return True
        tmo = self.oblige_timeout_ms
        verdict, model = None, None
        if kind == 'div':
            fs, n = abstract_big(self.pc + [z3.Not(cond)])
            if n:
                r, m = self._one_shot(fs, min(tmo, self.rung_ms))
                if r == 'unsat':
                    verdict = 'unsat'
        if verdict is None and alt is not None:
            # divisions as free reciprocals, hypothesis-free: a polynomial
            # identity is settled by z3's normal form in ms, whereas
            # hypotheses push it into genuine non-linear search
            (rc,), hyps = recip_abstract([cond])
            r, m = self._one_shot([z3.Not(rc)], min(tmo, self.rung_ms))
            if r == 'unsat':
                verdict = 'unsat'
            elif r != 'sat':
                # large polynomials: the solver's default normal form gives up
                # (som_blowup); hand it the explicitly expanded form
                try:
                    if diffs:
                        ds, _ = recip_abstract(list(diffs))
                        ds = [z3.simplify(d, som=True, som_blowup=1000000) for d in ds]
                        rs = z3.Or([d != 0 for d in ds])
                        if _DEBUG:
                            print('[som rung]', len(ds), [str(d)[:40] for d in ds[:3]], flush=True)
                        r2, _ = self._one_shot([rs], min(tmo, self.rung_ms))
                        if r2 == 'unsat':
                            verdict = 'unsat'
                            r = 'unsat'
                except z3.Z3Exception as ex:
                    if _DEBUG:
                        print('[som rung failed]', ex, flush=True)
            if verdict == 'unsat':
                pass
            elif r == 'sat':
                # not an identity over free reciprocals: quite likely not an
                # identity at all -- look for a real counter-model right away
                m2 = self._substitution_search(cond, tries=60)
                if m2 is not None:
                    verdict, model = 'sat', m2
            if verdict is None and hyps:
                r, m = self._one_shot(hyps + [z3.Not(rc)], min(tmo, self.rung_ms))
                if r == 'unsat':
                    verdict = 'unsat'
        if verdict is None and alt is not None:
            # cleared form, hypothesis-free
            r, m = self._one_shot([z3.Not(alt)], min(tmo, 20000))
            if r == 'unsat':
                verdict = 'unsat'
        if verdict is None and alt is not None:
            # cleared form under the path condition
            r, m = self._one_shot(self.pc + [z3.Not(alt)], tmo)
            if r == 'unsat':
                verdict = 'unsat'
            elif r == 'sat':
                verdict, model = 'sat', m
        if verdict is None and alt is None and kind != 'div':
            r, m = self._one_shot(self.pc + [z3.Not(cond)], min(tmo, 4000))
            if r == 'unsat':
                verdict = 'unsat'
            elif r == 'sat':
                verdict, model = 'sat', m
        if verdict is None and alt is None and kind != 'div' and (
                _has_div(cond) or any(_has_div(p) for p in self.pc[-6:])):
            # divisions as free reciprocals over pc and goal jointly: equal
            # rational terms become the same polynomial, so 'vg == 0 |- s == 0'
            # is settled by the normal form
            fs, hyps = recip_abstract(self.pc + [z3.Not(cond)])
            try:
                fs = [z3.simplify(f, som=True, som_blowup=100000) for f in fs]
            except z3.Z3Exception:
                pass
            r, m = self._one_shot(fs, min(tmo, self.rung_ms))
            if r == 'unsat':
                verdict = 'unsat'
        if verdict is None:
            r, m = self._one_shot(self.pc + [z3.Not(cond)],
                                  tmo if kind != 'div' else min(tmo, 15000))
            if r == 'unsat':
                verdict = 'unsat'
            elif r == 'sat':
                verdict, model = 'sat', m
        if verdict is None:
            m = self._substitution_search(cond)
            if m is not None:
                verdict, model = 'sat', m
        if _DEBUG:
            print(f'[oblige {name} kind={kind} -> {verdict}]', flush=True)
        if verdict == 'unsat':
            self.stats.discharged += 1
            if len(self.stats.samples) < 6:
                self.stats.samples.append({
                    'obligation': name, 'verdict': 'unsat',
                    'pc_len': len(self.pc),
                    'formula': _short(cond)})
            return True
        if verdict == 'sat':
            self._fail(name, model, info)
            return False
        self.stats.inconclusive += 1
        self.inconclusives.append(name)
        return None

    def _substitution_search(self, cond, tries: int = 40):
        """Last-resort counter-model search (2.7 (3)): random small rationals."""
        import random
        rnd = random.Random(self.seed * 7919 + self.stats.obligations)
        consts = _free_consts([cond] + self.pc)
        if any(c.decl().arity() > 0 for c in consts):
            return None
        for _ in range(tries):
            sub = []
            for c in consts:
                if z3.is_bool(c):
                    v = z3.BoolVal(rnd.random() < .5)
                elif _is_intsort(c):
                    v = z3.IntVal(rnd.randint(-3, 5))
                else:
                    v = z3.RealVal(f'{rnd.randint(-12, 12)}/{rnd.randint(1, 6)}')
                sub.append((c, v))
            try:
                ok_pc = all(z3.is_true(z3.simplify(z3.substitute(p, sub)))
                            for p in self.pc)
                if not ok_pc:
                    continue
                cv = z3.simplify(z3.substitute(cond, sub))
            except z3.Z3Exception:
                continue
            if z3.is_false(cv):
                s = z3.Solver()
                s.add([c == v for c, v in sub])
                if s.check() == z3.sat:
                    return s.model()
        return None

    def _fail(self, name, model, info):
        vals = {}
        for nm, sym in self.symbols.items():
            v = model.eval(sym, model_completion=True)
            if z3.is_bool(sym):
                vals[nm] = z3.is_true(v)
            else:
                pv = _val_of(v)
                if pv is None:
                    # algebraic number: approximate
                    try:
                        pv = Fraction(v.approx(20).as_fraction())
                    except Exception:
                        pv = 0
                vals[nm] = pv
        funcs = {}
        for fname, f in self.funcs.items():
            table = {}
            for arg in self.func_apps.get(fname, []):
                a = _val_of(model.eval(arg, model_completion=True))
                if a is None:
                    continue
                v = _val_of(model.eval(f(z3.IntVal(int(a))),
                                       model_completion=True))
                table[int(a)] = v if v is not None else 0
            ev = _val_of(model.eval(f(z3.IntVal(-987654321)),
                                    model_completion=True))
            funcs[fname] = {'table': table, 'else': ev if ev is not None else 0}
        cm = CounterModel(name, vals, funcs, dict(info or {}))
        cm.info.setdefault('path', list(self.trace))
        cm.info.update(self.path_info)
        self.failures.append(Failure(name, cm))
        if self.stop_on_failure:
            raise PathAbort('failure recorded')

    # -- exploration ------------------------------------------------------
    def _begin_path(self, prefix):
        self.prefix = prefix
        self.trace = []
        self.pc = []
        self.solver = z3.Solver()
        self.solver.set('timeout', min(500, self.check_timeout_ms))
        self.nl_mode = False
        self.decided = {}
        self.model = None
        self.pending_div = []
        self.auto = itertools.count()
        self.func_apps = {k: [] for k in self.func_apps}
        self.path_obligations = 0
        self.path_info = {}
        self.sqrt_memo = []
        self.sqrt_log = []
        self.abs_log = []

    def explore(self, fn: Callable[['Engine'], Any],
                on_path_end: Callable | None = None):
        """Run fn over every feasible path (DFS by re-execution)."""
        global _ENGINE
        if _ENGINE is not None and _ENGINE is not self:
            raise RuntimeError('nested engines')
        _ENGINE = self
        try:
            if self.concrete is not None:
                self.stats.paths += 1
                fn(self)
                return self
            self.worklist = [[]]
            while self.worklist:
                prefix = self.worklist.pop()
                self._begin_path(prefix)
                self.stats.paths += 1
                try:
                    fn(self)
                    self.flush_divisions()
                    if self.trace or self.path_obligations:
                        self.stats.paths_nontrivial += 1
                    if len(self.path_samples) < 2:
                        self.path_samples.append({
                            'decisions': [d if isinstance(d, bool) else list(d) for d in self.trace][:40],
                            'path_condition': [_short(c, 120) for c in self.pc[:8]],
                            'obligations_on_path': self.path_obligations})
                    if on_path_end is not None:
                        on_path_end(self)
                except PathAbort:
                    self.stats.aborted += 1
                if self.failures and self.stop_on_failure:
                    break
            return self
        finally:
            _ENGINE = None


def _short(e, n=160):
    s = str(e).replace('\n', ' ')
    s = ' '.join(s.split())
    return s if len(s) <= n else s[:n - 3] + '...'


def _free_consts(es):
    seen, out, stack = set(), [], list(es)
    while stack:
        t = stack.pop()
        k = t.get_id()
        if k in seen:
            continue
        seen.add(k)
        if z3.is_app(t):
            if t.num_args() == 0 and t.decl().kind() == z3.Z3_OP_UNINTERPRETED:
                out.append(t)
            elif t.decl().kind() == z3.Z3_OP_UNINTERPRETED:
                out.append(t)
                stack.extend(t.children())
            else:
                stack.extend(t.children())
    return out
