"""cvc5 back-end for floating-point queries (z3 assertions -> SMT-LIB2 -> cvc5)."""

from __future__ import annotations

import re
import time

import z3

try:
    import cvc5
except ImportError:  # pragma: no cover
    cvc5 = None


def available():
    return cvc5 is not None


def check(assertions, consts, timeout_ms=600000):
    """-> (status, {name: python value} | None, seconds)."""
    s = z3.Solver()
    s.add(assertions)
    text = s.to_smt2()
    text = text.replace('(check-sat)', '')
    for op in ('bvurem', 'bvudiv', 'bvsdiv', 'bvsrem', 'bvsmod'):
        text = text.replace(op + '_i', op)
    text = '(set-option :produce-models true)\n(set-logic ALL)\n' + text + '\n(check-sat)\n'
    names = [str(c) for c in consts]
    slv = cvc5.Solver()
    slv.setOption('tlimit-per', str(int(timeout_ms)))
    p = cvc5.InputParser(slv)
    p.setStringInput(cvc5.InputLanguage.SMT_LIB_2_6, text, 'q')
    sm = p.getSymbolManager()
    t = time.time()
    status = 'unknown'
    while True:
        c = p.nextCommand()
        if c.isNull():
            break
        r = str(c.invoke(slv, sm)).strip()
        if '(error' in r:
            return 'unknown', None, time.time() - t
        if r in ('sat', 'unsat', 'unknown'):
            status = r
    vals = None
    if status == 'sat' and names:
        p2 = cvc5.InputParser(slv, sm)
        p2.setStringInput(cvc5.InputLanguage.SMT_LIB_2_6,
                          '(get-value (' + ' '.join(names) + '))', 'v')
        c = p2.nextCommand()
        r = str(c.invoke(slv, sm))
        vals = {}
        for m in re.finditer(r'\(([^\s()]+) (#x[0-9a-fA-F]+|#b[01]+|true|false)\)', r):
            n, v = m.group(1), m.group(2)
            if v.startswith('#x'):
                vals[n] = int(v[2:], 16)
            elif v.startswith('#b'):
                vals[n] = int(v[2:], 2)
            else:
                vals[n] = (v == 'true')
    return status, vals, time.time() - t


class ValModel:
    """Minimal z3-model look-alike built from cvc5 values of the symbols."""

    def __init__(self, consts, vals):
        self.sub = []
        for c in consts:
            n = str(c)
            if n not in vals:
                continue
            v = vals[n]
            if z3.is_bv(c):
                self.sub.append((c, z3.BitVecVal(v, c.size())))
            elif z3.is_bool(c):
                self.sub.append((c, z3.BoolVal(bool(v))))

    def eval(self, e, model_completion=False):
        return z3.simplify(z3.substitute(e, self.sub))
