"""Process-per-task pool with hard wall-clock and address-space limits.

z3's own `timeout` is advisory, so every task runs in a forked child that the
parent kills at its deadline; a killed or crashed task is reported as
inconclusive, never as success.
"""

from __future__ import annotations

import multiprocessing as mp
import os
import resource
import time
import traceback
from typing import Any, Callable


def _child(fn, task, conn, mem_bytes):
    try:
        if mem_bytes:
            try:
                resource.setrlimit(resource.RLIMIT_AS, (mem_bytes, mem_bytes))
            except (ValueError, OSError):
                pass
        res = fn(task)
        conn.send(('ok', res))
    except BaseException as e:  # noqa: BLE001
        conn.send(('error', f'{type(e).__name__}: {e}\n{traceback.format_exc()}'))
    finally:
        conn.close()


def run_tasks(fn: Callable[[Any], Any], tasks: list, nproc: int | None = None,
              timeout_s: float = 600.0, mem_gb: float = 8.0,
              on_result: Callable | None = None, deadline: float | None = None):
    """Yield-style runner: returns list of (task, status, result).

    status: 'ok' | 'error' | 'timeout' | 'skipped'.
    """
    nproc = nproc or min(16, os.cpu_count() or 4)
    ctx = mp.get_context('fork')
    pending = list(enumerate(tasks))[::-1]
    running: dict = {}
    out: list = [None] * len(tasks)
    mem = int(mem_gb * (1 << 30)) if mem_gb else 0
    stop = False
    while pending or running:
        while pending and len(running) < nproc and not stop:
            if deadline is not None and time.time() > deadline:
                break
            i, task = pending.pop()
            pc, cc = ctx.Pipe(duplex=False)
            p = ctx.Process(target=_child, args=(fn, task, cc, mem), daemon=True)
            p.start()
            cc.close()
            running[i] = (p, pc, time.time(), task)
        if (stop or (deadline is not None and time.time() > deadline)) and pending:
            for i, task in pending:
                out[i] = (task, 'skipped', None)
            pending = []
        done = []
        for i, (p, pc, t0, task) in running.items():
            if pc.poll(0):
                try:
                    status, res = pc.recv()
                except EOFError:
                    status, res = 'error', 'worker died (no result)'
                p.join(5)
                out[i] = (task, status, res)
                done.append(i)
            elif not p.is_alive():
                if pc.poll(0.05):
                    try:
                        status, res = pc.recv()
                    except EOFError:
                        status, res = 'error', 'worker died'
                else:
                    status, res = 'error', f'worker died (exit {p.exitcode})'
                out[i] = (task, status, res)
                done.append(i)
            elif time.time() - t0 > timeout_s:
                p.kill()
                p.join(5)
                out[i] = (task, 'timeout', None)
                done.append(i)
        for i in done:
            running.pop(i)[1].close()
            if on_result is not None:
                if on_result(out[i]) == 'stop':
                    stop = True
        if not done:
            time.sleep(0.01)
    return out
