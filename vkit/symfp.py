"""IEEE-754 binary64 proxies (z3 FP terms) and bounded bit-vector integers.

Used where the real-number abstraction would hide the behaviour under test
(C06: `world_size * (k / world_size)` is not always integral in doubles).
`SymFloat` subclasses float so `isinstance(x, float)` checks in the code under
test behave; its float payload is NaN and never used.
"""

from __future__ import annotations

try:
    import z3
except ImportError:  # replay interpreter
    z3 = None

from vkit import symex
from vkit.symex import NotEncodable, SymBool, mk_bool

F64 = z3.Float64() if z3 else None
RNE = z3.RNE() if z3 else None
RTZ = z3.RTZ() if z3 else None
BITS = 16  # width of the bit-vector integers


def fpval(x):
    return z3.FPVal(float(x), F64)


class BVInt:
    """Non-negative bounded integer backed by a BITS-wide bit-vector."""

    __slots__ = ('e',)

    def __init__(self, e):
        self.e = e

    def _o(self, o):
        if isinstance(o, BVInt):
            return o.e
        if isinstance(o, bool):
            o = int(o)
        if isinstance(o, int):
            if not 0 <= o < (1 << (BITS - 1)):
                raise NotEncodable(f'int {o} outside the bit-vector range')
            return z3.BitVecVal(o, BITS)
        return None

    def to_fp(self):
        return z3.fpSignedToFP(RNE, z3.ZeroExt(64 - BITS, self.e), F64) \
            if BITS < 64 else z3.fpSignedToFP(RNE, self.e, F64)

    # comparisons (unsigned; values are kept < 2**(BITS-1))
    def _cmp(self, o, f, ff):
        if isinstance(o, SymFloat):
            return mk_bool(ff(self.to_fp(), o.e))
        if isinstance(o, float):
            return mk_bool(ff(self.to_fp(), fpval(o)))
        b = self._o(o)
        if b is None:
            return NotImplemented
        return mk_bool(z3.simplify(f(self.e, b)))

    def __lt__(self, o):
        return self._cmp(o, z3.ULT, z3.fpLT)

    def __le__(self, o):
        return self._cmp(o, z3.ULE, z3.fpLEQ)

    def __gt__(self, o):
        return self._cmp(o, z3.UGT, z3.fpGT)

    def __ge__(self, o):
        return self._cmp(o, z3.UGE, z3.fpGEQ)

    def __eq__(self, o):  # type: ignore
        return self._cmp(o, lambda a, b: a == b, z3.fpEQ)

    def __ne__(self, o):  # type: ignore
        return self._cmp(o, lambda a, b: a != b, z3.fpNEQ)

    __hash__ = None  # type: ignore

    def __bool__(self):
        return bool(self != 0)

    # arithmetic
    def __mul__(self, o):
        if isinstance(o, (SymFloat, float)):
            oe = o.e if isinstance(o, SymFloat) else fpval(o)
            return SymFloat(z3.fpMul(RNE, self.to_fp(), oe))
        b = self._o(o)
        if b is None:
            return NotImplemented
        return BVInt(self.e * b)

    __rmul__ = __mul__

    def __add__(self, o):
        b = self._o(o)
        if b is None:
            return NotImplemented
        return BVInt(self.e + b)

    __radd__ = __add__

    def __sub__(self, o):
        b = self._o(o)
        if b is None:
            return NotImplemented
        return BVInt(self.e - b)

    def __truediv__(self, o):
        if isinstance(o, BVInt):
            return SymFloat(z3.fpDiv(RNE, self.to_fp(), o.to_fp()))
        if isinstance(o, (int, float)):
            return SymFloat(z3.fpDiv(RNE, self.to_fp(), fpval(o)))
        if isinstance(o, SymFloat):
            return SymFloat(z3.fpDiv(RNE, self.to_fp(), o.e))
        return NotImplemented

    def __rtruediv__(self, o):
        if isinstance(o, (int, float)):
            return SymFloat(z3.fpDiv(RNE, fpval(o), self.to_fp()))
        return NotImplemented

    def __mod__(self, o):
        b = self._o(o)
        if b is None:
            return NotImplemented
        return BVInt(z3.URem(self.e, b))

    def __rmod__(self, o):
        b = self._o(o)
        if b is None:
            return NotImplemented
        return BVInt(z3.URem(b, self.e))

    def __floordiv__(self, o):
        b = self._o(o)
        if b is None:
            return NotImplemented
        return BVInt(z3.UDiv(self.e, b))

    def __index__(self):
        raise NotEncodable('concretisation of a bit-vector integer')

    __int__ = __index__

    def __repr__(self):
        return f'BVInt({self.e})'


def fresh_bv(eng, name):
    """Bounded integer symbol (concrete mode: the model's value)."""
    if eng.concrete is not None:
        return int(eng._cval(name, 1, 'int', False))
    c = z3.BitVec(name, BITS)
    eng.symbols[name] = c
    return BVInt(c)


class SymFloat(float):
    """IEEE double term.  `integral` marks results of int()/round()."""

    def __new__(cls, e, integral=False):
        o = float.__new__(cls, float('nan'))
        o.e = e
        o.integral = integral
        return o

    def _o(self, o):
        if isinstance(o, SymFloat):
            return o.e
        if isinstance(o, BVInt):
            return o.to_fp()
        if isinstance(o, (int, float)) and not isinstance(o, bool):
            return fpval(o)
        return None

    def _cmp(self, o, f):
        b = self._o(o)
        if b is None:
            return NotImplemented
        return mk_bool(f(self.e, b))

    def __lt__(self, o):
        return self._cmp(o, z3.fpLT)

    def __le__(self, o):
        return self._cmp(o, z3.fpLEQ)

    def __gt__(self, o):
        return self._cmp(o, z3.fpGT)

    def __ge__(self, o):
        return self._cmp(o, z3.fpGEQ)

    def __eq__(self, o):  # type: ignore
        return self._cmp(o, z3.fpEQ)

    def __ne__(self, o):  # type: ignore
        return self._cmp(o, z3.fpNEQ)

    __hash__ = None  # type: ignore

    def __bool__(self):
        return bool(self != 0)

    def _bin(self, o, f, swap=False):
        b = self._o(o)
        if b is None:
            return NotImplemented
        return SymFloat(f(RNE, b, self.e) if swap else f(RNE, self.e, b))

    def __add__(self, o):
        return self._bin(o, z3.fpAdd)

    def __radd__(self, o):
        return self._bin(o, z3.fpAdd, True)

    def __sub__(self, o):
        return self._bin(o, z3.fpSub)

    def __rsub__(self, o):
        return self._bin(o, z3.fpSub, True)

    def __mul__(self, o):
        return self._bin(o, z3.fpMul)

    def __rmul__(self, o):
        return self._bin(o, z3.fpMul, True)

    def __truediv__(self, o):
        return self._bin(o, z3.fpDiv)

    def __rtruediv__(self, o):
        return self._bin(o, z3.fpDiv, True)

    def __neg__(self):
        return SymFloat(z3.fpNeg(self.e))

    def __abs__(self):
        return SymFloat(z3.fpAbs(self.e))

    def __round__(self, nd=None):
        if nd is not None:
            raise NotEncodable('round(x, ndigits) on a double term')
        return SymFloat(z3.fpRoundToIntegral(RNE, self.e), integral=True)

    def __int__(self):
        raise NotEncodable('int() of a double term outside sym_int')

    __index__ = __int__

    def __float__(self):
        raise NotEncodable('float() of a double term')

    def trunc(self):
        return SymFloat(z3.fpRoundToIntegral(RTZ, self.e), integral=True)

    def to_bv(self):
        """integral double -> BVInt (value assumed within range by the caller)."""
        wide = z3.fpToSBV(RTZ, self.e, z3.BitVecSort(64))
        return BVInt(z3.Extract(BITS - 1, 0, wide))

    def __mod__(self, o):
        raise NotEncodable('% on a double term')

    def __rmod__(self, o):
        # size % max(1, round(size * f)) in preconditioner.py: the divisor is an
        # integral double; python computes int % float in doubles, exact for
        # these magnitudes -> do it on bit-vectors
        if not self.integral:
            raise NotEncodable('% with a non-integral double divisor')
        if isinstance(o, BVInt):
            return BVInt(z3.URem(o.e, self.to_bv().e))
        if isinstance(o, int):
            return BVInt(z3.URem(z3.BitVecVal(o, BITS), self.to_bv().e))
        return NotImplemented

    def __repr__(self):
        return f'SymFloat({self.e})'


def fp_sym_int(x):
    """int() as used by the code under test."""
    if isinstance(x, SymFloat):
        return x.trunc()
    if isinstance(x, BVInt):
        return x
    return symex.sym_int(x)
