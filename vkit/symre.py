"""symre -- stand-in for the `re` module on symbolic strings.

A subset of Python's regular expressions is translated with sre_parse into z3
regular expressions; `search(q)` on a symbolic string q is the z3 atom
q in (Sigma* r Sigma*) (without the leading / trailing Sigma* when r is
anchored with ^ / $), `match(q)` is q in (r Sigma*), `fullmatch(q)` is q in r.
On concrete strings everything is delegated to the real `re`.
Unsupported constructs raise NotEncodable (inconclusive, never a verdict).
"""

from __future__ import annotations

import re as _re

try:
    import sre_parse as _sp
    import sre_constants as _sc
except ImportError:  # pragma: no cover
    from re import _parser as _sp, _constants as _sc  # type: ignore

try:
    import z3
except ImportError:  # replay interpreter
    z3 = None

from vkit import symex
from vkit.symex import NotEncodable, SymBool, mk_bool


class SymStr:
    """Symbolic string (z3 String term)."""

    def __init__(self, e):
        self.e = e

    def _o(self, o):
        if isinstance(o, SymStr):
            return o.e
        if isinstance(o, str):
            return z3.StringVal(o)
        return None

    def __add__(self, o):
        b = self._o(o)
        if b is None:
            return NotImplemented
        return SymStr(z3.Concat(self.e, b))

    def __radd__(self, o):
        b = self._o(o)
        if b is None:
            return NotImplemented
        if isinstance(o, str) and o == '':
            return self
        return SymStr(z3.Concat(b, self.e))

    def __bool__(self):
        return bool(mk_bool(z3.Length(self.e) > 0))

    def __eq__(self, o):  # type: ignore
        b = self._o(o)
        if b is None:
            return False
        return mk_bool(self.e == b)

    def __ne__(self, o):  # type: ignore
        b = self._o(o)
        if b is None:
            return True
        return mk_bool(self.e != b)

    __hash__ = object.__hash__

    def __str__(self):
        return '<symbolic-name>'

    __repr__ = __str__

    def __format__(self, spec):
        return '<symbolic-name>'


def fresh_str(eng, name, max_len=8, alphabet='a-z0-9_'):
    """Symbolic identifier-like string (concrete mode: the model's value)."""
    if eng.concrete is not None:
        v = eng.concrete.values.get(name, 'x')
        eng.used_values[name] = v
        return v
    s = z3.String(name)
    eng.symbols[name] = s
    cls = _class_re(alphabet)
    eng.assume(mk_bool(z3.And(z3.InRe(s, z3.Plus(cls)), z3.Length(s) <= max_len)), check=False)
    return SymStr(s)


def _class_re(spec):
    parts = []
    i = 0
    while i < len(spec):
        if i + 2 < len(spec) and spec[i + 1] == '-':
            parts.append(z3.Range(spec[i], spec[i + 2]))
            i += 3
        else:
            parts.append(z3.Re(spec[i]))
            i += 1
    return parts[0] if len(parts) == 1 else z3.Union(*parts)


_ANY = None


def _anychar():
    # names never contain newlines; '.' is any character
    return z3.AllChar(z3.ReSort(z3.StringSort()))


def _sigma_star():
    return z3.Full(z3.ReSort(z3.StringSort()))


def _cat(parts):
    parts = [p for p in parts if p is not None]
    if not parts:
        return z3.Re('')
    if len(parts) == 1:
        return parts[0]
    return z3.Concat(*parts)


def _category(cat):
    name = str(cat)
    if name.endswith('CATEGORY_DIGIT'):
        return z3.Range('0', '9')
    if name.endswith('CATEGORY_WORD'):
        return z3.Union(z3.Range('a', 'z'), z3.Range('A', 'Z'), z3.Range('0', '9'), z3.Re('_'))
    if name.endswith('CATEGORY_SPACE'):
        return z3.Union(z3.Re(' '), z3.Re('\t'))
    raise NotEncodable(f'regex category {name}')


def _translate(items):
    """list of sre items -> (anchored_start, z3 re, anchored_end)"""
    items = list(items)
    start = end = False
    if items and items[0][0] == _sc.AT and str(items[0][1]).endswith(('AT_BEGINNING', 'AT_BEGINNING_STRING')):
        start = True
        items = items[1:]
    if items and items[-1][0] == _sc.AT and str(items[-1][1]).endswith(('AT_END', 'AT_END_STRING')):
        end = True
        items = items[:-1]
    return start, _cat([_item(it) for it in items]), end


def _item(it):
    op, arg = it
    if op == _sc.LITERAL:
        return z3.Re(chr(arg))
    if op == _sc.NOT_LITERAL:
        return z3.Diff(_anychar(), z3.Re(chr(arg)))
    if op == _sc.ANY:
        return _anychar()
    if op == _sc.IN:
        neg = False
        parts = []
        for o2, a2 in arg:
            if o2 == _sc.NEGATE:
                neg = True
            elif o2 == _sc.LITERAL:
                parts.append(z3.Re(chr(a2)))
            elif o2 == _sc.RANGE:
                parts.append(z3.Range(chr(a2[0]), chr(a2[1])))
            elif o2 == _sc.CATEGORY:
                parts.append(_category(a2))
            else:
                raise NotEncodable(f'regex class item {o2}')
        r = parts[0] if len(parts) == 1 else z3.Union(*parts)
        return z3.Diff(_anychar(), r) if neg else r
    if op == _sc.BRANCH:
        alts = []
        for alt in arg[1]:
            s, r, e = _translate(alt)
            if s or e:
                raise NotEncodable('anchor inside an alternation')
            alts.append(r)
        return alts[0] if len(alts) == 1 else z3.Union(*alts)
    if op == _sc.SUBPATTERN:
        s, r, e = _translate(arg[-1])
        if s or e:
            raise NotEncodable('anchor inside a group')
        return r
    if op in (_sc.MAX_REPEAT, _sc.MIN_REPEAT):
        lo, hi, sub = arg
        s, r, e = _translate(sub)
        if s or e:
            raise NotEncodable('anchor inside a repeat')
        if hi == _sc.MAXREPEAT:
            if lo == 0:
                return z3.Star(r)
            if lo == 1:
                return z3.Plus(r)
            return z3.Concat(z3.Loop(r, lo, lo), z3.Star(r))
        if lo == 0 and hi == 1:
            return z3.Option(r)
        return z3.Loop(r, lo, hi)
    if op == _sc.AT:
        raise NotEncodable('anchor in the middle of a pattern')
    raise NotEncodable(f'regex construct {op}')


class _Match:
    """truthy stand-in for a match object on a symbolic string"""

    def __bool__(self):
        return True


class Pattern:
    def __init__(self, pattern, flags=0):
        self.pattern = pattern
        self.flags = flags
        self._real = _re.compile(pattern, flags)
        self._tr = None

    def _z(self):
        if self._tr is None:
            if self.flags:
                raise NotEncodable('regex flags')
            self._tr = _translate(_sp.parse(self.pattern))
        return self._tr

    def _sym(self, q, mode):
        s, r, e = self._z()
        if mode == 'search':
            parts = ([] if s else [_sigma_star()]) + [r] + ([] if e else [_sigma_star()])
        elif mode == 'match':
            parts = [r] + ([] if e else [_sigma_star()])
        else:
            parts = [r]
        return mk_bool(z3.InRe(q.e, _cat(parts)))

    # On a symbolic string the outcome is decided at the call (the path forks),
    # so both idioms work: `if regex.search(q)` and `regex.search(q) is not None`.
    def search(self, q):
        if isinstance(q, SymStr):
            return _Match() if bool(self._sym(q, 'search')) else None
        return self._real.search(q)

    def match(self, q):
        if isinstance(q, SymStr):
            return _Match() if bool(self._sym(q, 'match')) else None
        return self._real.match(q)

    def fullmatch(self, q):
        if isinstance(q, SymStr):
            return _Match() if bool(self._sym(q, 'full')) else None
        return self._real.fullmatch(q)


class SymRe:
    """module-like object assigned to `re` in the module under test"""

    def __getattr__(self, name):
        return getattr(_re, name)

    @staticmethod
    def compile(pattern, flags=0):
        return Pattern(pattern, flags)

    @staticmethod
    def search(pattern, q, flags=0):
        return Pattern(pattern, flags).search(q)

    @staticmethod
    def match(pattern, q, flags=0):
        return Pattern(pattern, flags).match(q)

    @staticmethod
    def fullmatch(pattern, q, flags=0):
        return Pattern(pattern, flags).fullmatch(q)


def found(pattern, q):
    """reference semantics of 'pattern found in q (regular-expression search)'"""
    if isinstance(q, SymStr):
        return Pattern(pattern)._sym(q, 'search')
    return _re.search(pattern, q) is not None


def selftest(seed=0, n=400):
    """differential validation of the translation against `re` on random strings"""
    import random
    rnd = random.Random(seed)
    pats = ['fc', '^fc', 'fc$', '^fc1$', 'a|b1', '[0-9]+', r'\.lin', r'^block\.', 'x.y', '(ab)+c', 'l[a-c]?n', r'\d\d', '^$', 'Linear',
            '^Linear$', 'conv|embed', r'1\.L', 'n{2,3}']
    bad = []
    for _ in range(n):
        p = rnd.choice(pats)
        s = ''.join(rnd.choice('abcflnxy01.L') for _ in range(rnd.randint(0, 6)))
        for mode in ('search', 'match', 'fullmatch'):
            want = getattr(_re.compile(p), mode)(s) is not None
            st, r, en = _translate(_sp.parse(p))
            if mode == 'search':
                parts = ([] if st else [_sigma_star()]) + [r] + ([] if en else [_sigma_star()])
            elif mode == 'match':
                parts = [r] + ([] if en else [_sigma_star()])
            else:
                parts = [r]
            got = z3.is_true(z3.simplify(z3.InRe(z3.StringVal(s), _cat(parts))))
            if got != want:
                sol = z3.Solver()
                sol.add(z3.InRe(z3.StringVal(s), _cat(parts)))
                got = sol.check() == z3.sat
            if got != want:
                bad.append((p, s, mode, want, got))
    return bad
