"""Shim side of validate_shim (runs under python3-vt)."""
import json
import os
import sys
import warnings

ROOT = os.path.dirname(os.path.dirname(os.path.abspath(__file__)))
sys.path.insert(0, ROOT)
warnings.simplefilter('ignore')
from vkit import loader  # noqa: E402

loader.load_kfac()
import torch  # noqa: E402
import kfac.distributed  # noqa: E402
import kfac.enums  # noqa: E402
import kfac.layers.modules  # noqa: E402
import kfac.layers.utils  # noqa: E402
import kfac.preconditioner  # noqa: E402
from vkit import vs_scenarios as S  # noqa: E402

K = {'utils': kfac.layers.utils, 'distributed': kfac.distributed, 'modules': kfac.layers.modules,
     'preconditioner': kfac.preconditioner, 'enums': kfac.enums}
# math.sqrt on concrete rationals
print(json.dumps(S.kfac_scenarios(torch, K, int(sys.argv[1]))))
