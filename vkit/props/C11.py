"""C11 -- model-parallel sharding is transparent to GPT-NeoX preconditioning.

See neox.py for the environment.  Every rank of a data x model grid runs the
real GPTNeoXKFACPreconditioner on its shards; the reference is kfac_ref on the
unsharded layer fed the concatenated data.  Obligations: the factors held by a
layer's primary (factor-gathering) rank are the unsharded factors; after
step() every rank holds exactly its shard of nu * V_full with the *global*
clip scale; data-parallel replicas agree and replicated parameters agree
across model-parallel peers.
"""

from __future__ import annotations

from vkit import harness as H
from vkit import kfh
from vkit import oracle as O
from vkit import symex
from vkit.framework import Prop
from vkit.props import neox
from vkit.symex import And

MODELS = {
    'col': [('col', 2, 2, True)],
    'col-nb': [('col', 1, 2, False)],
    'row': [('row', 2, 1, True)],
    'row-nb': [('row', 2, 2, False)],
    'col-row': [('col', 1, 2, True), ('row', 2, 1, True)],
}


class C11(Prop):
    id = 'C11'
    title = 'Model-parallel sharding is transparent to GPT-NeoX preconditioning'
    assumptions = ['DeepSpeed / Megatron by stand-ins: re-implemented 3-D topology, PipelineModule, Column/RowParallelLinear as nn.Linear '
                   'subclasses holding the local shard (as testing/gpt_neox.py does); the real libraries cannot be installed here',
                   'A-real; LAPACK uninterpreted with congruence; torch.distributed by the simulator contract',
                   'gradients are identical across data-parallel replicas before step()']
    stubs = ['deepspeed -> vkit/shim_ds', 'torch.distributed -> simulator', 'torch.linalg.eigh -> uninterpreted with congruence']
    trusted_base = ['z3 5.1.0', 'vkit.symex', 'symtorch shim', 'kfac_ref', 'vkit/props/neox.py sharding helpers']
    replay_tol = 5e-3
    replay_budget = 4
    task_timeout = {'quick': 400, 'thorough': 2400}

    def bounds(self, tier):
        return {'grids': [(1, 1), (1, 2), (2, 1), (2, 2)] + ([(1, 3), (3, 1)] if tier == 'thorough' else []),
                'pipe': '1 (one pipe=2 case)', 'models': {k: str(v) for k, v in MODELS.items()}, 'clip': [False, True],
                'prediv': [False, True], 'bucketed': [False, True], 'steps': '1..2'}

    def configs(self, tier, seed):
        out = []
        grids = [(1, 1), (1, 2), (2, 1), (2, 2)] + ([(1, 3), (3, 1)] if tier == 'thorough' else [])
        i = 0
        for (d, m) in grids:
            for name in MODELS:
                if not neox.divisible(MODELS[name], m):
                    continue
                for clip in (False, True):
                    for prediv in (False, True):
                        i += 1
                        if tier == 'quick' and name == 'col-row' and (d, m) == (2, 2) and (clip or prediv):
                            continue
                        if clip and m > 1 and not (d == 1 and name in ('col', 'row-nb') and not prediv):
                            # region of the recorded finding (shard-local clip scale): two small witnesses only
                            continue
                        out.append({'harness': 'sharded', 'data': d, 'model': m, 'pipe': 1, 'layers': name, 'clip': clip,
                                    'prediv': prediv, 'cap': 'huge' if i % 2 else 'zero', 'steps': 2 if (i % 3 == 0 and not clip) else 1})
        out.append({'harness': 'sharded', 'data': 1, 'model': 2, 'pipe': 2, 'layers': 'col', 'clip': False, 'prediv': False,
                    'cap': 'zero', 'steps': 1})
        return out

    def run(self, cfg, eng):
        if not H.SHIM:
            import sys  # the DeepSpeed stand-in is on sys.path (framework.replay_main)
        import kfac.gpt_neox.preconditioner as GP
        D, M, P = cfg['data'], cfg['model'], cfg['pipe']
        w = D * M * P
        specs = MODELS[cfg['layers']]
        nsteps = cfg['steps']
        sym = eng.concrete is None
        lam, alpha, lr = eng.fresh_real('damping'), eng.fresh_real('decay'), eng.fresh_real('lr')
        if sym:
            eng.assume(And(lam > 0, alpha > 0, alpha <= 1, lr >= 0), check=False)
        elif not (lam > 0 and 0 < alpha <= 1 and lr >= 0):
            raise symex.PathAbort('hp')
        kl = None
        if cfg['clip']:
            kl = eng.fresh_real('kl_clip')
            if sym:
                eng.assume(kl > 0, check=False)
            elif not kl > 0:
                raise symex.PathAbort('kl')
        B = 1
        full = [neox.unsharded(s) for s in specs]
        data = {(p, di, s, li): kfh.sym_batch(eng, f'_{p}_{di}_{s}_{li}', fs, B)
                for p in range(P) for di in range(D) for s in range(nsteps) for li, fs in enumerate(full)}
        grads = {(p, s, li): kfh.sym_grads(eng, f'_{p}_{s}_{li}', fs) for p in range(P) for s in range(nsteps) for li, fs in enumerate(full)}

        def rank(r):
            pi, di, mi = neox.coords(r, D, M)
            model, mods, topo = neox.build_rank(specs, r, D, M, P)
            dp, mp = neox.make_groups(topo, r, w)
            import warnings
            with warnings.catch_warnings():
                warnings.simplefilter('ignore')
                pre = GP.GPTNeoXKFACPreconditioner(
                    model, damping=lam, factor_decay=alpha, lr=lr, kl_clip=kl,
                    compute_eigenvalue_outer_product=cfg['prediv'],
                    allreduce_bucket_cap_mb=25.0 if cfg['cap'] == 'huge' else 0.0,
                    data_parallel_group=dp, model_parallel_group=mp, pipeline_parallel_group=None)
            outs = []
            for s in range(nsteps):
                for li, (spec, mod) in enumerate(zip(specs, mods)):
                    x, gy = neox.local_batch(spec, *data[(pi, di, s, li)], mi, M)
                    kfh.feed(mod, x, gy)
                for li, (spec, mod) in enumerate(zip(specs, mods)):
                    dw, db = neox.local_grads(spec, *grads[(pi, s, li)], mi, M)
                    mod.weight.grad = H.from_list(dw, None if H.SHIM else mod.weight.dtype)
                    if spec[3]:
                        mod.bias.grad = H.from_list(db, None if H.SHIM else mod.bias.dtype)
                n0 = (len(eng.sqrt_log), len(eng.abs_log))
                pre.step()
                sq = [c for c in eng.sqrt_log[n0[0]:] if c[2] == r]
                ab = [c for c in eng.abs_log[n0[1]:] if c[2] == r]
                facts = {}
                for li, mod in enumerate(mods):
                    name, layer = pre._layers[mod]
                    if layer.primary_rank == r:
                        facts[li] = (H.vals(layer.a_factor), H.vals(layer.g_factor))
                fin = []
                for spec, mod in zip(specs, mods):
                    lspec = ('linear', mod.weight.shape[1], mod.weight.shape[0], spec[3])
                    fin.append(kfh.get_combined(mod, lspec))
                outs.append({'grads': fin, 'sqrt': sq, 'abs': ab, 'factors': facts})
            return outs

        import os
        os.environ['VK_FORCE_DIST'] = '1'
        try:
            wr = kfh.run_world(w, rank, eng, policy='rr')
        finally:
            os.environ.pop('VK_FORCE_DIST', None)
        eng.oblige('no-error-no-mismatch-no-stall', not wr.errors and not wr.violations,
                   info={'errors': {str(k): f'{type(v).__name__}: {v}'[:200] for k, v in wr.errors.items()},
                         'violations': str(wr.violations)[:300], 'prediv': cfg['prediv']})
        if wr.errors or wr.violations:
            return
        eng.witness('all ranks stepped')
        for pi in range(P):
            ref = kfh.KfacRef(full, 'eigen', prediv=cfg['prediv'])
            for s in range(nsteps):
                for li, fs in enumerate(full):
                    ref.update_factors(li, [data[(pi, di, s, li)][0] for di in range(D)],
                                       [data[(pi, di, s, li)][1] for di in range(D)], alpha)
                    ref.refresh(li, lam)
                Ds = [kfh.combined(fs, *grads[(pi, s, li)]) for li, fs in enumerate(full)]
                Vs = [ref.precondition(li, Ds[li], lam) for li in range(len(full))]
                inner = 0
                for V, Dm in zip(Vs, Ds):
                    inner = inner + O.frob(V, Dm)
                for di in range(D):
                    for mi in range(M):
                        r = neox.rank_of(pi, di, mi, D, M)
                        o = wr.results[r][s]
                        for li, (a, g) in o['factors'].items():
                            eng.oblige_all_eq('factors-on-the-primary-rank-are-those-of-the-unsharded-layer',
                                              O.pairs(a, ref.A[li]) + O.pairs(g, ref.G[li]), info={'rank': r, 'layer': li, 'step': s})
                        want = []
                        for li, spec in enumerate(specs):
                            V = Vs[li]
                            nb = 1 if spec[3] else 0
                            if spec[0] == 'col':
                                want.append(neox.shard_rows(V, mi, M))
                            else:
                                wcols = neox.shard_cols([row[:len(row) - nb] for row in V], mi, M)
                                want.append([wr_ + ([row[-1]] if nb else []) for wr_, row in zip(wcols, V)])
                        kfh.check_clip(eng, 'every-rank-holds-its-shard-of-the-unsharded-preconditioned-gradient', o['grads'], want,
                                       None, lr, kl, o['sqrt'], o['abs'], info={'rank': r, 'step': s, 'clip': cfg['clip'], 'model': M},
                                       inner=inner, zero_path=not (cfg['clip'] and M > 1))


PROP = C11()
