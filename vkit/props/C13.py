"""C13 -- memory and communication placement follow the KAISA strategy.

Read off the history simulation (hist.py): per rank, the tensors reachable from
each layer object (generic attribute walk, classified factor / batch buffer /
second-order), `memory_usage()`, and the collective trace between operation
marks.  Update intervals and the starting step count are symbolic, so every
feasible gating pattern is a path; on each path the checks below are trace
obligations.
"""

from __future__ import annotations

from vkit.framework import Prop
from vkit.props import hist
from vkit import kfh


def divisors(n):
    return [k for k in range(1, n + 1) if n % k == 0]


def grid(w, k):
    p = w // k
    cols = [frozenset(range(i, w, p)) for i in range(p)]          # gradient-worker groups
    rows = [frozenset(range(i * p, i * p + p)) for i in range(k)]  # receiver groups
    return cols, rows


class C13(Prop):
    id = 'C13'
    title = 'Memory and communication placement follow the KAISA strategy'
    assumptions = ['value-agnostic (float) tensors: placement and traffic do not depend on values',
                   'torch.distributed by the simulator contract; element counts are those of the tensors handed to the collectives']
    stubs = ['torch.distributed -> simulator']
    trusted_base = ['z3 5.1.0 (interval / step gating)', 'vkit.symex', 'simulator event log', 'grid_ref in this file']
    replay_random_tries = 0
    replay_budget = 4
    task_timeout = {'quick': 300, 'thorough': 2400}

    def bounds(self, tier):
        return {'world': [1, 2, 3, 4] if tier == 'quick' else [1, 2, 3, 4, 6], 'grad_workers': 'every divisor of W',
                'history': 'train, then 2..3 operations from train / mem / eval / sd / load', 'intervals': 'symbolic >= 1, symbolic start step',
                'options': 'eigen / prediv / inverse, symmetric on/off, bucketed / unbucketed, hook / no-hook, colocate on/off'}

    def configs(self, tier, seed):
        out = []
        hists = [['train', 'mem', 'train', 'mem'], ['train', 'train', 'mem'], ['train', 'eval', 'mem', 'train'],
                 ['train', 'mem', 'load', 'train', 'mem'], ['train', 'sd', 'train', 'train', 'mem']]
        worlds = [1, 2, 3, 4] if tier == 'quick' else [1, 2, 3, 4, 6]
        i = 0
        for w in worlds:
            for k in divisors(w):
                for h in hists:
                    for method in ('eigen', 'eigen-prediv', 'inverse'):
                        i += 1
                        hi = hists.index(h)
                        if tier == 'quick' and w > 1 and (hi + ('eigen', 'eigen-prediv', 'inverse').index(method) + k + w) % 3:
                            continue
                        col = bool(i % 2) or method == 'eigen-prediv'
                        out.append({'harness': 'placement', 'world': w, 'k': k, 'ops': h, 'method': method, 'colocate': col,
                                    'cap': ['zero', 'huge', 'tiny'][i % 3], 'symmetric': bool((i // 2) % 2), 'hook': bool(i % 4),
                                    'acc': 1, 'model': ['two', 'four', 'conv'][i % 3], 'intervals': 'sym' if w > 1 else 'const',
                                    'policy': ['rr', 'reverse', 'high'][i % 3]})
        return out

    def run(self, cfg, eng):
        if cfg['world'] == 1:
            import os
            os.environ['VK_FORCE_DIST'] = '1'
        try:
            wr = hist.run_history(cfg, eng)
        finally:
            import os
            os.environ.pop('VK_FORCE_DIST', None)
        eng.oblige('history-runs-without-error', not wr.errors and not wr.violations,
                   info={'errors': str(wr.errors)[:300], 'violations': str(wr.violations)[:300]})
        if wr.errors or wr.violations:
            return
        eng.witness('history complete')
        w, k = cfg['world'], cfg['k']
        cols, rows = grid(w, k)
        specs = wr.specs
        dims = {str(i): (kfh.a_dim(s), kfh.g_dim(s)) for i, s in enumerate(specs)}
        for r in range(w):
            stepped = False
            for ob in wr.results[r]:
                if ob['op'] == 'train':
                    stepped = True
                if not stepped:
                    continue
                for name, lay in ob['layers'].items():
                    so = [a for a, (cls, _, _) in lay['held'].items() if cls == 'second-order']
                    eng.oblige('second-order-data-held-iff-gradient-worker', bool(so) == bool(lay['is_grad_worker']),
                               info={'rank': r, 'layer': name, 'op': ob['op'], 'i': ob['i'], 'held': str(so),
                                     'is_grad_worker': lay['is_grad_worker'], 'k': k, 'world': w})
                    col = [c for c in cols if lay['inv_workers']['A'] in c][0]
                    eng.oblige('gradient-workers-are-the-grid-column-of-the-inverse-worker',
                               lay['is_grad_worker'] == (r in col) and lay['inv_workers']['G'] in col)
                if 'memory_usage' in ob:
                    mu = ob['memory_usage']
                    tot = {'factor': 0, 'batch': 0, 'second-order': 0, 'grad': 0}
                    for name, lay in ob['layers'].items():
                        for a, (cls, nbytes, _) in lay['held'].items():
                            tot[cls] += nbytes
                    rep_f = mu.get('a_factors', 0) + mu.get('g_factors', 0)
                    rep_b = mu.get('a_batch', 0) + mu.get('g_batch', 0)
                    rep_s = mu.get('a_inverses', 0) + mu.get('g_inverses', 0)
                    eng.oblige('reported-memory-equals-bytes-of-tensors-held',
                               rep_f == tot['factor'] and rep_b == tot['batch'] and rep_s == tot['second-order']
                               and mu.get('total', -1) == tot['factor'] + tot['batch'] + tot['second-order'],
                               info={'rank': r, 'reported': str(mu), 'held': str(tot)})
        # ---- communication trace
        if w == 1:
            comm = [e for e in wr.events if e['kind'] not in ('mark', 'new_group')]
            eng.oblige('nothing-communicated-in-a-world-of-one', not comm, info={'events': str(comm[:3])})
            return
        for r in range(w):
            evs = [e for e in wr.events if e['rank'] == r]
            cur = None
            per_op: dict = {}
            for e in sorted(evs, key=lambda e: e['seq']):
                if e['kind'] == 'mark':
                    lab = e['label']
                    if lab.endswith(':begin'):
                        cur = lab[:-6]
                        per_op[cur] = []
                    elif lab.endswith(':end'):
                        cur = None
                    continue
                if cur is not None and e.get('phase') == 'issue':
                    per_op[cur].append(e)
            trains = [ob for ob in wr.results[r] if ob['op'] == 'train']
            ti = 0
            for opname, es in per_op.items():
                i, op = opname[2:].split(':')
                if op != 'train':
                    if op in ('eval', 'mem', 'mem0', 'sd', 'sd0', 'reset'):
                        eng.oblige('no-communication-outside-steps-and-loads', not es, info={'op': opname, 'events': str(es[:2])})
                    continue
                ob = trains[ti]
                ti += 1
                ar = [e for e in es if e['kind'] == 'all_reduce']
                bc = [e for e in es if e['kind'] == 'broadcast']
                eng.oblige('only-allreduce-and-broadcast-during-a-step', len(ar) + len(bc) == len(es))
                eng.oblige('factors-allreduced-over-the-whole-world', all(sorted(e['group']) == list(range(w)) for e in ar))
                n_expected = 0
                if ob['factor_update']:
                    for name, (na, ng) in dims.items():
                        n_expected += (na * (na + 1) // 2 + ng * (ng + 1) // 2) if cfg['symmetric'] else (na * na + ng * ng)
                eng.oblige('each-factor-allreduced-exactly-once-per-factor-update-step (element count)',
                           sum(e['nelem'] for e in ar) == n_expected,
                           info={'rank': r, 'op': opname, 'sent': sum(e['nelem'] for e in ar), 'expected': n_expected,
                                 'factor_update': ob['factor_update']})
                if cfg['cap'] == 'zero':
                    eng.oblige('unbucketed: one allreduce per factor', len(ar) == (2 * len(dims) if ob['factor_update'] else 0))
                inv_b = [e for e in bc if frozenset(e['group']) in cols and (k != w // k or frozenset(e['group']) not in rows)]
                grad_b = [e for e in bc if frozenset(e['group']) in rows and frozenset(e['group']) not in cols]
                if k == w // k and k > 1:
                    # rows and columns have equal sizes but different members
                    inv_b = [e for e in bc if frozenset(e['group']) in cols]
                    grad_b = [e for e in bc if frozenset(e['group']) in rows]
                eng.oblige('broadcasts-only-inside-worker-or-receiver-groups', len(inv_b) + len(grad_b) == len(bc),
                           info={'groups': str(sorted({tuple(e['group']) for e in bc}))})
                if k == 1:
                    eng.oblige('MEM-OPT-never-broadcasts-inverses', not inv_b)
                if k == w:
                    eng.oblige('COMM-OPT-never-broadcasts-gradients', not grad_b)
                if not ob['inv_update']:
                    eng.oblige('inverses-broadcast-only-on-inverse-update-steps', not inv_b, info={'op': opname})
                for e in inv_b + grad_b:
                    eng.oblige('broadcast-within-own-group', r in e['group'])


PROP = C13()
