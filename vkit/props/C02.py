"""C02 -- distributed work placement is semantically transparent.

W simulated ranks each construct the real KFACPreconditioner on their own
replica, receive their own symbolic micro-batch through the two hooks, have
the same symbolic gradient installed (the documented DDP precondition) and
call step().  The reference is the single-process K-FAC state machine
(kfac_ref) fed the union of the per-rank batches.  LAPACK results are
uninterpreted with congruence, so implementation and reference agree iff
they decompose the same matrices and combine the results the same way.
"""

from __future__ import annotations

from vkit import harness as H
from vkit import kfh
from vkit import oracle as O
from vkit import symex
from vkit.framework import Prop
from vkit.symex import And

MODELS = {
    'lin-lin': [('linear', 2, 2, True), ('linear', 2, 1, False)],
    'conv': [('conv', 1, 1, (1, 2), (1, 1), (0, 0), True, 1, 2)],
    'three': [('linear', 1, 2, False), ('linear', 2, 1, True), ('linear', 1, 1, True)],
}


def divisors(n):
    return [k for k in range(1, n + 1) if n % k == 0]


class C02(Prop):
    id = 'C02'
    title = 'Distributed work placement is semantically transparent'
    assumptions = [
        'A-real; LAPACK by uninterpreted stubs with congruence (same argument => same result)',
        'gradients are identical on all ranks before step() (documented DDP precondition); how per-sample rows arise from a loss '
        'reduction is outside the claim',
        'torch.distributed by the simulator contract; values delivered by matched collectives do not depend on the schedule, '
        'three baton policies are run and C03 covers matching / stalls',
    ]
    stubs = ['torch.distributed -> simulator', 'torch.linalg.eigh / inv -> uninterpreted with congruence', 'math.sqrt -> contract stub with congruence']
    trusted_base = ['z3 5.1.0', 'vkit.symex', 'symtorch shim', 'kfac_ref (vkit/kfh.py)']
    replay_tol = 5e-3
    task_timeout = {'quick': 300, 'thorough': 1800}

    def bounds(self, tier):
        return {'world': [2, 3, 4] if tier == 'quick' else [2, 3, 4, 6, 8],
                'grad_workers': 'every divisor of the world size (as float k/W) and the three strategy enums',
                'models': {k: [str(s) for s in v] for k, v in MODELS.items()}, 'steps': '1..2',
                'bucket_cap': ['0 (unbucketed)', 'symbolic (forks on every bucketing)', 'huge'],
                'options': 'colocate on/off, COMPUTE/MEMORY, symmetry-aware on/off, eigen / eigen+prediv / inverse, hook / no-hook updates'}

    def configs(self, tier, seed):
        out = []
        worlds = [2, 3, 4] if tier == 'quick' else [2, 3, 4, 6, 8]
        i = 0
        for w in worlds:
            for k in divisors(w):
                for method in ('eigen', 'eigen-prediv', 'inverse'):
                    for col in (True, False):
                        if method == 'eigen-prediv' and not col:
                            continue
                        i += 1
                        if tier == 'quick' and w == 4 and (i % 2):
                            continue
                        out.append({
                            'harness': 'transparent', 'world': w, 'k': k, 'method': method, 'colocate': col,
                            'model': ['lin-lin', 'conv', 'three'][i % 3], 'heuristic': ['COMPUTE', 'MEMORY'][i % 2],
                            'cap': ['zero', 'sym', 'huge'][i % 3], 'symmetric': bool((i // 2) % 2),
                            'steps': 1 + (i % 2 if (w < 4 and not (i // 3) % 2) else 0),
                            'hook': bool(i % 4), 'clip': bool((i // 3) % 2) and i % 3 != 1, 'policy': ['rr', 'reverse', 'high'][i % 3],
                            'inv_steps': 1 + (i % 2)})
        # strategy enums
        for w, strat in ((4, 'HYBRID_OPT'), (2, 'MEM_OPT'), (3, 'COMM_OPT'), (4, 'MEM_OPT')):
            out.append({'harness': 'transparent', 'world': w, 'k': strat, 'method': 'eigen', 'colocate': True, 'model': 'lin-lin',
                        'heuristic': 'COMPUTE', 'cap': 'huge', 'symmetric': False, 'steps': 1, 'hook': True, 'clip': True,
                        'policy': 'rr', 'inv_steps': 1})
        return out

    def run(self, cfg, eng):
        import kfac.preconditioner as P
        from kfac.enums import AssignmentStrategy, ComputeMethod, DistributedStrategy
        specs = MODELS[cfg['model']]
        w, nsteps = cfg['world'], cfg['steps']
        sym = eng.concrete is None
        lam = eng.fresh_real('damping')
        alpha = eng.fresh_real('decay')
        lr = eng.fresh_real('lr')
        eng.assume(And(lam > 0, alpha > 0, alpha <= 1, lr >= 0), check=False)
        kl = None
        if cfg['clip']:
            kl = eng.fresh_real('kl_clip')
            eng.assume(kl > 0, check=False)
        if cfg['cap'] == 'zero':
            cap = 0.0
        elif cfg['cap'] == 'huge':
            cap = 25.0
        else:
            cap = eng.fresh_real('bucket_cap_mb')
            eng.assume(cap > 0, check=False)
        B = 1
        data = {(r, s, li): kfh.sym_batch(eng, f'_{r}_{s}_{li}', spec, B)
                for r in range(w) for s in range(nsteps) for li, spec in enumerate(specs)}
        grads = {(s, li): kfh.sym_grads(eng, f'_{s}_{li}', spec) for s in range(nsteps) for li, spec in enumerate(specs)}
        frac = getattr(DistributedStrategy, cfg['k']) if isinstance(cfg['k'], str) else cfg['k'] / w
        method = cfg['method']

        def rank(r):
            model, mods = kfh.build_model(specs)
            import warnings
            with warnings.catch_warnings():
                warnings.simplefilter('ignore')
                pre = P.KFACPreconditioner(
                    model, damping=lam, factor_decay=alpha, lr=lr, kl_clip=kl, inv_update_steps=cfg['inv_steps'],
                    allreduce_bucket_cap_mb=cap, assignment_strategy=AssignmentStrategy[cfg['heuristic']],
                    colocate_factors=cfg['colocate'], grad_worker_fraction=frac, symmetry_aware=cfg['symmetric'],
                    compute_method=ComputeMethod.INVERSE if method == 'inverse' else ComputeMethod.EIGEN,
                    compute_eigenvalue_outer_product=(method == 'eigen-prediv'), update_factors_in_hook=cfg['hook'])
            outs = []
            for s in range(nsteps):
                for li, (spec, mod) in enumerate(zip(specs, mods)):
                    x, gy = data[(r, s, li)]
                    kfh.feed(mod, x, gy)
                for li, (spec, mod) in enumerate(zip(specs, mods)):
                    dw, db = grads[(s, li)]
                    kfh.set_grads(mod, spec, dw, db)
                n0 = (len(eng.sqrt_log), len(eng.abs_log))
                pre.step()
                mine_sqrt = [c for c in eng.sqrt_log[n0[0]:] if c[2] == r or w == 1]
                mine_abs = [c for c in eng.abs_log[n0[1]:] if c[2] == r or w == 1]
                outs.append(([kfh.get_combined(mod, spec) for spec, mod in zip(specs, mods)], mine_sqrt, mine_abs))
            return outs

        wr = kfh.run_world(w, rank, eng, policy=cfg['policy'])
        eng.oblige('no-error-no-mismatch-no-stall', not wr.errors and not wr.violations,
                   info={'errors': str(wr.errors)[:300], 'violations': str(wr.violations)[:400]})
        if wr.errors or wr.violations:
            return
        eng.witness('all ranks stepped')
        # reference: single process on the union of the batches
        ref = kfh.KfacRef(specs, 'inverse' if method == 'inverse' else 'eigen', prediv=(method == 'eigen-prediv'))
        impl_args = [c['arg'] for c in H.linalg_log()] if (H.SHIM and sym) else None
        n_impl_calls = len(impl_args) if impl_args is not None else 0
        for s in range(nsteps):
            for li, spec in enumerate(specs):
                ref.update_factors(li, [data[(r, s, li)][0] for r in range(w)], [data[(r, s, li)][1] for r in range(w)], alpha)
            if s % cfg['inv_steps'] == 0:
                if impl_args is not None:
                    # rung 2: every matrix the implementation decomposed is one of the reference's
                    pass
                for li in range(len(specs)):
                    ref.refresh(li, lam)
            Ds = [kfh.combined(spec, *grads[(s, li)]) for li, spec in enumerate(specs)]
            Vs = [ref.precondition(li, Ds[li], lam) for li in range(len(specs))]
            for r in range(w):
                got, sq, ab = wr.results[r][s]
                kfh.check_clip(eng, 'gradients-equal-single-process-kfac-on-the-union-batch', got, Vs, Ds, lr, kl, sq, ab,
                               info={'rank': r, 'step': s})
                if r > 0:
                    eng.oblige_all_eq('gradients-identical-across-ranks',
                                      [p for li in range(len(specs)) for p in O.pairs(got[li], wr.results[0][s][0][li])],
                                      info={'rank': r, 'step': s})
        if impl_args is not None:
            fresh = [c for c in H.linalg_log()[n_impl_calls:] if c.get('how') == 'fresh']
            eng.oblige('reference-decomposes-only-matrices-the-implementation-decomposed', not fresh,
                       info={'fresh_reference_calls': len(fresh)})


PROP = C02()
