"""Lock-step harness shared by C05 and C09: the real preconditioner and the
reference K-FAC state machine (kfac_ref) consume the same symbolic history.

The initial state is an arbitrary step-boundary state reached through the
public load_state_dict: second-order data computed from arbitrary factors
(A_old, G_old) at an arbitrary step t_ref, then current factors (A0, G0) and
step count t0 installed without recomputation.  Hyper-parameters are symbolic
constants or uninterpreted functions of the step.  k operations follow.

ops: 'train', 'eval', 'reset' (reset_batch at a boundary), 'partial-reset-train'
(no-hook mode: one micro-batch, reset_batch, then a full iteration),
'ckpt' / 'ckpt-noinv' / 'ckpt-nofactors' (state_dict -> save -> fresh object
-> load_state_dict).
"""

from __future__ import annotations

import torch

from vkit import harness as H
from vkit import kfh
from vkit import oracle as O
from vkit import symex
from vkit.symex import And

MODELS = {
    'lin': [('linear', 2, 1, True)],
    'lin-nb': [('linear', 1, 2, False)],
    'two': [('linear', 1, 1, True), ('linear', 1, 2, False)],
    'conv': [('conv', 1, 1, (1, 2), (1, 1), (0, 0), True, 1, 2)],
}
HP = ['damping', 'factor_decay', 'kl_clip', 'lr']


def run(cfg, eng):
    import kfac.preconditioner as P
    from kfac.enums import ComputeMethod
    specs = MODELS[cfg['model']]
    w, kw = cfg.get('world', 1), cfg.get('k', 1)
    method = cfg.get('method', 'eigen')
    acc, hook = cfg.get('acc', 1), cfg.get('hook', True)
    ops = cfg['ops']
    sym = eng.concrete is None
    clip = cfg.get('clip', False)
    mode = cfg.get('hp', 'const')
    visited = []   # step terms at which hyper-parameters are evaluated

    # ---- hyper-parameters
    hp_arg, hp_at = {}, {}
    for name in HP:
        if name == 'kl_clip' and not clip:
            hp_arg[name] = None
            hp_at[name] = lambda t: None
            continue
        if mode == 'callable':
            f = eng.fresh_func(name + '_at')
            hp_arg[name] = (lambda k_, f=f: f(k_))
            hp_at[name] = f
        else:
            v = eng.fresh_real(name)
            hp_arg[name] = v
            hp_at[name] = (lambda t, v=v: v)
    iv = cfg.get('intervals', 'sym')
    if iv == 'callable':
        f1, f2 = eng.fresh_func('fus_at', real=False), eng.fresh_func('ius_at', real=False)
        fus_arg, ius_arg = (lambda k_: f1(k_)), (lambda k_: f2(k_))
        fus_at, ius_at = f1, f2
    elif iv == 'sym':
        fus_c, ius_c = eng.fresh_int('factor_update_steps'), eng.fresh_int('inv_update_steps')
        fus_arg, ius_arg = fus_c, ius_c
        fus_at, ius_at = (lambda t: fus_c), (lambda t: ius_c)
    else:
        fus_c, ius_c = cfg.get('fus', 1), cfg.get('ius', 1)
        fus_arg, ius_arg = fus_c, ius_c
        fus_at, ius_at = (lambda t: fus_c), (lambda t: ius_c)

    def constrain(t):
        cs = [hp_at['damping'](t) > 0, hp_at['factor_decay'](t) > 0, hp_at['factor_decay'](t) <= 1,
              hp_at['lr'](t) >= 0, fus_at(t) >= 1, ius_at(t) >= 1]
        if clip:
            cs.append(hp_at['kl_clip'](t) > 0)
        if sym:
            eng.assume(And(*cs), check=False)
        elif not all(bool(c) for c in cs):
            raise symex.PathAbort('hyper-parameter outside its domain')

    # ---- arbitrary initial boundary state
    arbitrary = cfg.get('init', 'arbitrary') == 'arbitrary'
    if arbitrary:
        t_ref, t0 = eng.fresh_int('t_refresh'), eng.fresh_int('t0')
        if sym:
            eng.assume(And(t_ref >= 0, t0 >= t_ref), check=False)
        elif not (0 <= t_ref <= t0):
            raise symex.PathAbort('steps')
        old = [(H.sym_list(eng, f'Aold{i}', (kfh.a_dim(s),) * 2, symmetric=True),
                H.sym_list(eng, f'Gold{i}', (kfh.g_dim(s),) * 2, symmetric=True)) for i, s in enumerate(specs)]
        cur = [(H.sym_list(eng, f'A0_{i}', (kfh.a_dim(s),) * 2, symmetric=True),
                H.sym_list(eng, f'G0_{i}', (kfh.g_dim(s),) * 2, symmetric=True)) for i, s in enumerate(specs)]
        constrain(t_ref)
    else:
        t_ref, t0, old, cur = 0, 0, None, None
    nops = len(ops)
    for j in range(nops + 1):
        constrain(t0 + j)
    B = 1
    data = {(r, i, mb, li): kfh.sym_batch(eng, f'_{r}_{i}_{mb}_{li}', spec, B)
            for r in range(w) for i in range(nops) for mb in range(acc + 1) for li, spec in enumerate(specs)}
    grads = {(i, li): kfh.sym_grads(eng, f'_{i}_{li}', spec) for i in range(nops) for li, spec in enumerate(specs)}
    frac = kw / w

    def make(model):
        import warnings
        with warnings.catch_warnings():
            warnings.simplefilter('ignore')
            return P.KFACPreconditioner(
                model, factor_update_steps=fus_arg, inv_update_steps=ius_arg, damping=hp_arg['damping'],
                factor_decay=hp_arg['factor_decay'], kl_clip=hp_arg['kl_clip'], lr=hp_arg['lr'],
                accumulation_steps=acc, update_factors_in_hook=hook, grad_worker_fraction=frac,
                colocate_factors=cfg.get('colocate', True), allreduce_bucket_cap_mb=0.0 if cfg.get('cap', 'zero') == 'zero' else 25.0,
                compute_method=ComputeMethod.INVERSE if method == 'inverse' else ComputeMethod.EIGEN,
                compute_eigenvalue_outer_product=(method == 'eigen-prediv'))

    def to_state(pairs, steps):
        return {'steps': steps, 'layers': {str(i): {'A': H.from_list(a), 'G': H.from_list(g)} for i, (a, g) in enumerate(pairs)}}

    def rank(r):
        model, mods = kfh.build_model(specs)
        pre = make(model)
        if arbitrary:
            pre.load_state_dict(to_state(old, t_ref), compute_inverses=True)
            pre.load_state_dict(to_state(cur, t0), compute_inverses=False)
        obs = []

        def snapshot(extra=None):
            sd = pre.state_dict()
            o = {'steps': sd['steps'],
                 'factors': [(H.vals(sd['layers'][str(i)]['A']), H.vals(sd['layers'][str(i)]['G'])) for i in range(len(specs))],
                 'scalars': {k_: sd.get(k_) for k_ in ('factor_update_steps', 'inv_update_steps', 'damping', 'factor_decay', 'kl_clip', 'lr')}}
            o.update(extra or {})
            return o

        for i, op in enumerate(ops):
            if op in ('train', 'partial-reset-train'):
                if op == 'partial-reset-train':
                    for li, (spec, mod) in enumerate(zip(specs, mods)):
                        kfh.feed(mod, *data[(r, i, acc, li)])
                    pre.reset_batch()
                for mb in range(acc):
                    for li, (spec, mod) in enumerate(zip(specs, mods)):
                        kfh.feed(mod, *data[(r, i, mb, li)])
                for li, (spec, mod) in enumerate(zip(specs, mods)):
                    kfh.set_grads(mod, spec, *grads[(i, li)])
                n0 = (len(eng.sqrt_log), len(eng.abs_log))
                pre.step()
                sq = [c for c in eng.sqrt_log[n0[0]:] if c[2] == r or w == 1]
                ab = [c for c in eng.abs_log[n0[1]:] if c[2] == r or w == 1]
                obs.append(snapshot({'op': op, 'grads': [kfh.get_combined(mod, spec) for spec, mod in zip(specs, mods)],
                                     'sqrt': sq, 'abs': ab}))
            elif op == 'eval':
                for li, (spec, mod) in enumerate(zip(specs, mods)):
                    mod.eval()
                    kfh.feed(mod, *data[(r, i, 0, li)])
                    mod.train()
                obs.append(snapshot({'op': op}))
            elif op == 'reset':
                pre.reset_batch()
                obs.append(snapshot({'op': op}))
            elif op.startswith('ckpt'):
                saved = pre.state_dict(include_factors=(op != 'ckpt-nofactors'))
                before = snapshot()
                path = f'ckpt_{r}_{i}'
                if not H.SHIM:
                    import os
                    import tempfile
                    path = os.path.join(tempfile.gettempdir(), f'vk_ls_{os.getpid()}_{r}_{i}')
                torch.save(saved, path)
                model, mods = kfh.build_model(specs)
                pre = make(model)
                loaded = torch.load(path)
                if not H.SHIM:
                    os.remove(path)
                err = None
                try:
                    import warnings
                    with warnings.catch_warnings():
                        warnings.simplefilter('ignore')
                        pre.load_state_dict(loaded, compute_inverses=(op == 'ckpt'))
                except Exception as e:  # noqa: BLE001
                    err = f'{type(e).__name__}: {e}'[:200]
                after = snapshot() if err is None else None
                obs.append({'op': op, 'before': before, 'after': after, 'error': err, 'steps': before['steps']})
                if err is None and op != 'ckpt':
                    # documented preconditions of resuming without recomputed
                    # inverses / without factors: the next iteration refreshes them
                    need = [pre.steps % pre.inv_update_steps == 0]
                    if op == 'ckpt-nofactors':
                        need.append(pre.steps % pre.factor_update_steps == 0)
                    for c in need:
                        if isinstance(c, bool):
                            if not c:
                                raise symex.PathAbort('resume off an update step')
                        else:
                            eng.assume(c)
        return obs

    wr = kfh.run_world(w, rank, eng, policy=cfg.get('policy', 'rr'))
    eng.oblige('no-error-no-mismatch-no-stall', not wr.errors and not wr.violations,
               info={'errors': {str(k_): f'{type(v).__name__}: {v}'[:200] for k_, v in wr.errors.items()},
                     'violations': str(wr.violations)[:300]})
    if wr.errors or wr.violations:
        return None
    eng.witness('history executed')

    # ---- reference in lock-step
    ref = kfh.KfacRef(specs, 'inverse' if method == 'inverse' else 'eigen', prediv=(method == 'eigen-prediv'))
    t = t0
    have_so = False
    if arbitrary:
        for li in range(len(specs)):
            ref.A[li], ref.G[li] = old[li]
            ref.refresh(li, hp_at['damping'](t_ref))
            ref.A[li], ref.G[li] = cur[li]
        have_so = True
    for i, op in enumerate(ops):
        o0 = wr.results[0][i]
        if op in ('train', 'partial-reset-train'):
            upd = bool(t % fus_at(t) == 0)
            inv = bool(t % ius_at(t) == 0)
            if upd:
                for li, spec in enumerate(specs):
                    xs = [data[(r, i, mb, li)][0] for r in range(w) for mb in range(acc)]
                    gs = [data[(r, i, mb, li)][1] for r in range(w) for mb in range(acc)]
                    ref.update_factors(li, xs, gs, hp_at['factor_decay'](t))
            if inv:
                if any(ref.A[li] is None for li in range(len(specs))):
                    raise symex.PathAbort('inverse update before any factor exists (not a valid history)')
                for li in range(len(specs)):
                    ref.refresh(li, hp_at['damping'](t))
                have_so = True
            if not have_so:
                raise symex.PathAbort('no second-order data yet (not a valid history)')
            Ds = [kfh.combined(spec, *grads[(i, li)]) for li, spec in enumerate(specs)]
            Vs = [ref.precondition(li, Ds[li], hp_at['damping'](t)) for li in range(len(specs))]
            for r in range(w):
                o = wr.results[r][i]
                eng.oblige('step-count-grows-by-exactly-one', o['steps'] == t + 1, info={'op': i})
                for li in range(len(specs)):
                    eng.oblige_all_eq('factors-change-only-on-factor-update-steps-and-equal-the-reference',
                                      O.pairs(o['factors'][li][0], ref.A[li]) + O.pairs(o['factors'][li][1], ref.G[li]),
                                      info={'op': i, 'layer': li, 'rank': r, 'factor_update': upd})
                kfh.check_clip(eng, 'gradients-equal-the-reference-state-machine', o['grads'], Vs, Ds,
                               hp_at['lr'](t), hp_at['kl_clip'](t), o['sqrt'], o['abs'],
                               info={'op': i, 'rank': r, 'factor_update': upd, 'inverse_update': inv})
            t = t + 1
        elif op in ('eval', 'reset'):
            for r in range(w):
                o = wr.results[r][i]
                eng.oblige('eval-and-reset-leave-step-count-unchanged', o['steps'] == t)
                if ref.A[0] is not None:
                    eng.oblige_all_eq('eval-and-reset-leave-factors-unchanged',
                                      [p for li in range(len(specs)) for p in
                                       O.pairs(o['factors'][li][0], ref.A[li]) + O.pairs(o['factors'][li][1], ref.G[li])])
        elif op.startswith('ckpt'):
            for r in range(w):
                o = wr.results[r][i]
                eng.oblige('load-never-fails-on-a-state-produced-by-state_dict', o['error'] is None, info={'error': o['error'], 'rank': r})
                if o['error'] is not None:
                    return None
                bef, aft = o['before'], o['after']
                eng.oblige('restored-step-count', aft['steps'] == bef['steps'] and aft['steps'] == t)
                pairs_s, struct_ok = [], True
                for k_ in aft['scalars']:
                    x, y = aft['scalars'][k_], bef['scalars'][k_]
                    if x is None or y is None or callable(x) or callable(y):
                        struct_ok = struct_ok and (x is None) == (y is None)
                    else:
                        pairs_s.append((x, y))
                eng.oblige('restored-scalar-hyperparameters-present', struct_ok, info={'after': str(aft['scalars'])[:200]})
                eng.oblige_all_eq('restored-scalar-hyperparameters', pairs_s)
                if op != 'ckpt-nofactors' and bef['factors'][0][0] is not None:
                    eng.oblige_all_eq('restored-factors', [p for li in range(len(specs)) for p in
                                                          O.pairs(aft['factors'][li][0], bef['factors'][li][0]) +
                                                          O.pairs(aft['factors'][li][1], bef['factors'][li][1])])
            if op == 'ckpt-nofactors':
                for li in range(len(specs)):
                    ref.A[li] = ref.G[li] = None
                have_so = False
            elif op == 'ckpt':
                if ref.A[0] is not None:
                    for li in range(len(specs)):
                        ref.refresh(li, hp_at['damping'](t))
                    have_so = True
            else:
                have_so = False
    return wr


def _same(a, b):
    if a is b:
        return True
    if isinstance(a, symex.SymNum) or isinstance(b, symex.SymNum):
        return False
    return a == b
