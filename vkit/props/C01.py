"""C01 -- the preconditioned gradient solves the damped Kronecker system.

inverse method (direct): every SPD matrix A + lam*I is parametrised as
L diag(d) L^T (unit lower L, d > 0, e_i d_i = 1), so its inverse is a
polynomial closed form registered with the linalg.inv stub; the real
KFACPreconditioner.step() runs on these factors and z3 proves
(G + lam I) W (A + lam I) == nu * D.

eigen method (compositional): linalg.eigh returns *unconstrained* fresh
(d, Q); after step() the gradients must equal
nu * Q_G ((Q_G^T D Q_A) / (max(d_G,0) x max(d_A,0) + lam)) Q_A^T for all real
Q, d, D, lam > 0 (E2), the eigh arguments must be the layer's factors (E1), and
the bridging lemma E3 (for orthogonal Q that formula solves
G+ V A+ + lam V = D) is discharged separately at tiny shapes.
"""

from __future__ import annotations

from vkit import harness as H
from vkit import kfh
from vkit import oracle as O
from vkit import symex
from vkit.framework import Prop
from vkit.symex import And


def spd_param(eng, name, n):
    """-> (M, Minv, hyps) with M = L D L^T, Minv = L^-T E L^-1, e_i d_i = 1."""
    L = [[(eng.fresh_real(f'{name}L_{i}_{j}', data=True) if j < i else (1 if i == j else 0))
          for j in range(n)] for i in range(n)]
    d = [eng.fresh_real(f'{name}d_{i}') for i in range(n)]
    sym = eng.concrete is None
    if sym:
        e = [eng.fresh_real(f'{name}e_{i}') for i in range(n)]
        for i in range(n):
            eng.assume(d[i] > 0, check=False)
            eng.assume(e[i] * d[i] == 1, check=False)
    else:
        for i in range(n):
            if not d[i] > 0:
                raise symex.PathAbort('d <= 0')
        e = [1 / x for x in d]
    Dm = [[d[i] if i == j else 0 for j in range(n)] for i in range(n)]
    Em = [[e[i] if i == j else 0 for j in range(n)] for i in range(n)]
    M = O.mm(O.mm(L, Dm), O.T(L))
    Li = [[1 if i == j else 0 for j in range(n)] for i in range(n)]
    for i in range(n):
        for j in range(i):
            acc = 0
            for k in range(j, i):
                acc = acc + L[i][k] * Li[k][j]
            Li[i][j] = -acc
    Minv = O.mm(O.mm(O.T(Li), Em), Li)
    return M, Minv


LAYERS_Q = [
    ('linear', 1, 1, False), ('linear', 1, 1, True), ('linear', 2, 2, False), ('linear', 2, 2, True),
    ('linear', 3, 2, False), ('linear', 2, 3, True), ('linear', 3, 3, False),
    ('conv', 1, 1, (1, 1), (1, 1), (0, 0), True, 2, 2), ('conv', 1, 2, (2, 1), (1, 1), (0, 0), True, 2, 2),
    ('conv', 2, 1, (1, 1), (1, 1), (0, 0), False, 2, 2), ('conv', 1, 2, (1, 2), (1, 1), (0, 0), False, 2, 2),
]
LAYERS_T = LAYERS_Q + [
    ('linear', 3, 2, True), ('linear', 3, 3, True), ('linear', 1, 3, True), ('linear', 4, 2, False), ('linear', 4, 3, True),
    ('linear', 2, 4, True), ('linear', 4, 4, False),
    ('conv', 1, 1, (2, 2), (1, 1), (0, 0), False, 3, 3), ('conv', 2, 2, (1, 1), (1, 1), (0, 0), True, 2, 2),
    ('conv', 1, 2, (2, 2), (1, 1), (0, 0), False, 3, 3), ('conv', 2, 2, (2, 1), (1, 1), (0, 0), True, 3, 2),
    ('conv', 1, 3, (2, 2), (1, 1), (0, 0), True, 3, 3),
]


class C01(Prop):
    id = 'C01'
    title = 'Preconditioned gradient solves the damped Kronecker-factored system'
    assumptions = [
        'A-real: tensor arithmetic is exact real arithmetic; rounding, conditioning-scaled tolerance and '
        'half-precision numerics are outside the claim (dtype is a tag)',
        'linalg.inv returns the unique inverse (closed form over the LDL^T parameters); linalg.eigh returns arbitrary '
        '(d, Q) for E2, i.e. the identity holds for all real Q and d, a fortiori for true eigendecompositions',
        'E3 (bridging lemma, code independent) is discharged by z3 for symbolic orthogonal Q only at 1x1, 2x1, 1x2 '
        '(2x2 is unknown within 60 s) and for fixed rational non-symmetric orthogonal Q at 2x2..3x3; beyond that it '
        'rests on the textbook argument',
        'the torch.linalg.eig branch is unreachable (no helper reports non-symmetric factors)',
    ]
    stubs = ['torch.linalg.inv: registered closed form / uninterpreted with congruence',
             'torch.linalg.eigh: uninterpreted (fresh d, Q) with congruence',
             'math.sqrt: fresh r >= 0 (argument logged)']
    trusted_base = ['z3 5.1.0', 'vkit.symex', 'symtorch shim (validated against torch by validate_shim)',
                    'oracle: nested-list matrix algebra in vkit/oracle.py']
    replay_tol = 2e-3
    task_timeout = {'quick': 300, 'thorough': 1500}

    def bounds(self, tier):
        return {'layers': [str(s) for s in (LAYERS_Q if tier == 'quick' else LAYERS_T)],
                'methods': ['inverse', 'eigen', 'eigen+prediv'],
                'clipping': ['kl_clip=None (nu = 1)', 'symbolic kl_clip (nu from the clip path)'],
                'grad_dtype_tags': ['fp32', 'fp16 (fp32 inverse)'],
                'values': 'all factors / gradients / damping / lr / kl_clip symbolic'}

    def configs(self, tier, seed):
        out = []
        layers = LAYERS_Q if tier == 'quick' else LAYERS_T
        for spec in layers:
            big = kfh.a_dim(spec) * kfh.g_dim(spec)
            for method in ('inverse', 'eigen', 'eigen-prediv'):
                for clip in (False, True):
                    if clip and big > (6 if tier == 'quick' else 9):
                        continue
                    if method == 'inverse' and big > (9 if tier == 'quick' else 16):
                        continue
                    for gdt in ('fp32', 'fp16'):
                        if gdt == 'fp16' and (clip or big > 4):
                            continue
                        out.append({'harness': 'step', 'spec': list(spec), 'method': method,
                                    'clip': clip, 'grad_dtype': gdt})
        # several layers sharing one clip scale (mixed bias / no-bias, conv + linear)
        for m in ('nb-b', 'conv-lin') + (('three', 'lin-lin') if tier == 'thorough' else ()):
            out.append({'harness': 'multi-layer-clip', 'model': m, 'mode': 'const'})
        for shape in ([1, 1], [2, 1], [1, 2]):
            out.append({'harness': 'bridging-lemma', 'shape': shape, 'q': 'symbolic'})
        for shape in ([2, 2], [3, 2], [2, 3], [3, 3]):
            out.append({'harness': 'bridging-lemma', 'shape': shape, 'q': 'fixed'})
        return out

    def run(self, cfg, eng):
        if cfg['harness'] == 'bridging-lemma':
            return self.bridging(cfg, eng)
        if cfg['harness'] == 'multi-layer-clip':
            # V_l = Ginv_l D_l Ainv_l (uninterpreted inverses), one nu for all layers
            from vkit.props import C07
            return C07.PROP.run({'harness': 'step', 'model': cfg['model'], 'mode': cfg['mode']}, eng)
        import kfac.preconditioner as P
        from kfac.enums import ComputeMethod
        spec = tuple(tuple(x) if isinstance(x, list) else x for x in cfg['spec'])
        method, clip = cfg['method'], cfg['clip']
        na, ng = kfh.a_dim(spec), kfh.g_dim(spec)
        model, (mod,) = kfh.build_model([spec])
        lam = eng.fresh_real('damping')
        eng.assume(lam > 0, check=False)
        lr = eng.fresh_real('lr')
        eng.assume(lr >= 0, check=False)
        if clip:
            kl = eng.fresh_real('kl_clip')
            eng.assume(kl > 0, check=False)
        else:
            kl = None
        gdt = H.dtype_of(cfg['grad_dtype'])
        if cfg['grad_dtype'] != 'fp32':
            for p_ in mod.parameters():
                H.set_param(p_, p_.to(gdt) if H.SHIM else p_.detach().to(gdt))
        pre = P.KFACPreconditioner(
            model, damping=lam, lr=lr, kl_clip=kl,
            compute_method=ComputeMethod.INVERSE if method == 'inverse' else ComputeMethod.EIGEN,
            compute_eigenvalue_outer_product=(method == 'eigen-prediv'))
        if method == 'inverse':
            A_l, Ai = spd_param(eng, 'A', na)   # A + lam I
            G_l, Gi = spd_param(eng, 'G', ng)
            A = O.add_diag(A_l, -lam)
            G = O.add_diag(G_l, -lam)
            if H.SHIM:
                import torch.linalg as L
                L.register_inverse(A_l, Ai)
                L.register_inverse(G_l, Gi)
        else:
            A = H.sym_list(eng, 'A', (na, na), symmetric=True)
            G = H.sym_list(eng, 'G', (ng, ng), symmetric=True)
        pre.load_state_dict({'steps': 0, 'layers': {'0': {'A': H.from_list(A), 'G': H.from_list(G)}}},
                            compute_inverses=False)
        dw, db = kfh.sym_grads(eng, '', spec)
        kfh.set_grads(mod, spec, dw, db, gdt)
        D = kfh.combined(spec, dw, db)
        dtype_before = H.dtype_tag(mod.weight.grad)
        try:
            pre.step()
        except Exception as e:  # noqa: BLE001
            eng.oblige('no-exception-from-step', False, info={'error': f'{type(e).__name__}: {e}'[:200]})
            return
        eng.witness('step done')
        W = kfh.get_combined(mod, spec)
        log = H.linalg_log()
        sym = eng.concrete is None

        # the scale applied on this path
        if not clip:
            nu = 1
        elif sym:
            if eng.sqrt_log:
                r = eng.sqrt_log[-1][1]
                nu = r if bool(r < 1) else 1
            else:
                nu = 1
        else:
            nu = None   # replay: only proportionality can be observed

        def clip_argument(V):
            """the clip scale must be computed from <V, D> with the raw gradient D"""
            if not clip:
                return
            s_ref = O.frob(V, D) * lr * lr
            if sym:
                if eng.sqrt_log:
                    arg = eng.sqrt_log[-1][0]
                    # the code takes |vg_sum| right before the root: compare the
                    # argument of that abs with the reference inner product
                    # (a rational identity), then the composition (trivial)
                    n_abs = len(eng.abs_log)
                    if n_abs:
                        inner, outer = eng.abs_log[n_abs - 1][0], eng.abs_log[n_abs - 1][1]
                        eng.oblige_eq('clip-scale-uses-<V,D>-with-the-raw-gradient', inner, s_ref)
                        eng.oblige_eq('clip-scale-is-sqrt(kl/|sum|)', arg, kl / outer)
                    else:
                        eng.oblige_eq('clip-scale-uses-<V,D>-with-the-raw-gradient', arg * O.sabs(s_ref), kl)
            else:
                import math
                nu_ref = 1.0 if s_ref == 0 else min(1.0, math.sqrt(kl / abs(s_ref)))
                scale = max(1.0, max(abs(x) for x in H.flat(V)))
                ok = all(abs(w - nu_ref * v) <= eng.tol * scale for w, v in O.pairs(W, V))
                eng.oblige('clip-scale-uses-<V,D>-with-the-raw-gradient', ok,
                           info={'nu_ref': nu_ref, 'W': str(H.flat(W)[:4]), 'V': str(H.flat(V)[:4])})

        if method == 'inverse':
            calls = [c for c in log if c['fn'] == 'inv']
            eng.oblige('two-inverses-computed', len(calls) == 2, info={'n': len(calls)})
            if len(calls) != 2:
                return
            eng.oblige_all_eq('inv-argument-is-A+damping*I', O.pairs(calls[0]['arg'], A_l))
            eng.oblige_all_eq('inv-argument-is-G+damping*I', O.pairs(calls[1]['arg'], G_l))
            R = O.mm(O.mm(G_l, W), A_l)
            self.proportional(eng, 'inverse-W-solves-the-damped-system', R, D, nu)
            clip_argument(O.mm(O.mm(Gi, D), Ai) if sym else O.mm(O.mm(calls[1]['out'], D), calls[0]['out']))
        else:
            calls = [c for c in log if c['fn'] == 'eigh']
            eng.oblige('two-eigendecompositions-computed', len(calls) == 2, info={'n': len(calls)})
            if len(calls) != 2:
                return
            eng.oblige_all_eq('eigh-argument-is-A', O.pairs(calls[0]['arg'], A))
            eng.oblige_all_eq('eigh-argument-is-G', O.pairs(calls[1]['arg'], G))
            (da, qa), (dg, qg) = calls[0]['out'], calls[1]['out']
            v1 = O.mm(O.mm(O.T(qg), D), qa)
            v2 = [[v1[i][j] / (O.pos(dg[i]) * O.pos(da[j]) + lam) for j in range(na)] for i in range(ng)]
            V = O.mm(O.mm(qg, v2), O.T(qa))
            if sym:
                self.proportional(eng, 'eigen-W-solves-the-damped-system', W, V, nu)
                clip_argument(V)
            else:
                # replay on real torch: Q is orthogonal, so check the defining
                # system itself:  G+ W A+ + lam W == nu * D
                Ap = O.mm(O.mm(qa, [[O.pos(da[i]) if i == j else 0 for j in range(na)] for i in range(na)]), O.T(qa))
                Gp = O.mm(O.mm(qg, [[O.pos(dg[i]) if i == j else 0 for j in range(ng)] for i in range(ng)]), O.T(qg))
                R = O.add(O.mm(O.mm(Gp, W), Ap), O.scale(lam, W))
                self.proportional(eng, 'eigen-W-solves-the-damped-system', R, D, nu)
                clip_argument(V)
        eng.oblige('gradient-dtype-preserved', H.dtype_tag(mod.weight.grad) == dtype_before,
                   info={'dtype': H.dtype_tag(mod.weight.grad), 'before': dtype_before})

    def proportional(self, eng, name, R, D, nu):
        if nu is not None:
            eng.oblige_all_eq(name, [(r, nu * d) for r, d in O.pairs(R, D)])
            return
        # concrete: R == c * D for one c >= 0
        rs, ds = H.flat(R), H.flat(D)
        k = max(range(len(ds)), key=lambda i: abs(ds[i]))
        if abs(ds[k]) < 1e-9:
            eng.oblige(name, all(abs(x) < 1e-6 for x in rs))
            return
        c = rs[k] / ds[k]
        scale = max(1.0, max(abs(x) for x in rs))
        ok = c >= -1e-9 and all(abs(r - c * d) <= eng.tol * scale for r, d in zip(rs, ds))
        eng.oblige(name, ok, info={'c': c, 'R': str(rs[:6]), 'D': str(ds[:6])})

    # ------------------------------------------------------------ E3
    def bridging(self, cfg, eng):
        """For orthogonal Q and arbitrary real d the eigen formula solves
        G+ V A+ + lam V = D, with G+ = Q_G diag(max(d_G,0)) Q_G^T."""
        if eng.concrete is not None:
            raise symex.PathAbort('lemma has no concrete counterpart')
        ng, na = cfg['shape']
        lam = eng.fresh_real('lam')
        eng.assume(lam > 0, check=False)

        from fractions import Fraction as Fr
        FIXED = {
            2: {'a': [[Fr(3, 5), Fr(-4, 5)], [Fr(4, 5), Fr(3, 5)]],
                'g': [[Fr(5, 13), Fr(12, 13)], [Fr(-12, 13), Fr(5, 13)]]},
            # products of a rational rotation and a rational reflection: orthogonal, not symmetric
            3: {'a': O.mm([[Fr(3, 5), Fr(-4, 5), 0], [Fr(4, 5), Fr(3, 5), 0], [0, 0, 1]],
                          [[Fr(1, 3), Fr(2, 3), Fr(2, 3)], [Fr(2, 3), Fr(1, 3), Fr(-2, 3)], [Fr(2, 3), Fr(-2, 3), Fr(1, 3)]]),
                'g': O.mm([[1, 0, 0], [0, Fr(5, 13), Fr(-12, 13)], [0, Fr(12, 13), Fr(5, 13)]],
                          [[Fr(2, 3), Fr(-1, 3), Fr(2, 3)], [Fr(2, 3), Fr(2, 3), Fr(-1, 3)], [Fr(-1, 3), Fr(2, 3), Fr(2, 3)]])},
        }

        def ortho(name, n):
            if n == 1:
                return [[1]]
            if cfg.get('q') == 'fixed':
                q = FIXED[n][name]
                assert O.mm(O.T(q), q) == O.eye(n), 'fixed Q must be orthogonal'
                return q
            # Q = R * H(v): R a fixed rational rotation (so Q is not symmetric),
            # H(v) a symbolic Householder reflection
            from fractions import Fraction
            Rm = [[Fraction(3, 5), Fraction(-4, 5)], [Fraction(4, 5), Fraction(3, 5)]]
            v = [eng.fresh_real(f'{name}v{i}') for i in range(n)]
            vv = v[0] * v[0] + v[1] * v[1]
            eng.assume(vv > 0, check=False)
            Hm = [[(1 if i == j else 0) - 2 * v[i] * v[j] / vv for j in range(n)] for i in range(n)]
            return O.mm(Rm, Hm)
        qa, qg = ortho('a', na), ortho('g', ng)
        da = [eng.fresh_real(f'da{i}') for i in range(na)]
        dg = [eng.fresh_real(f'dg{i}') for i in range(ng)]
        D = H.sym_list(eng, 'D', (ng, na))
        v1 = O.mm(O.mm(O.T(qg), D), qa)
        v2 = [[v1[i][j] / (O.pos(dg[i]) * O.pos(da[j]) + lam) for j in range(na)] for i in range(ng)]
        V = O.mm(O.mm(qg, v2), O.T(qa))
        Ap = O.mm(O.mm(qa, [[O.pos(da[i]) if i == j else 0 for j in range(na)] for i in range(na)]), O.T(qa))
        Gp = O.mm(O.mm(qg, [[O.pos(dg[i]) if i == j else 0 for j in range(ng)] for i in range(ng)]), O.T(qg))
        R = O.add(O.mm(O.mm(Gp, V), Ap), O.scale(lam, V))
        eng.witness('lemma set up')
        eng.oblige_all_eq('E3: eigen formula solves G+ V A+ + lam V = D', O.pairs(R, D))


PROP = C01()
