"""History runner shared by C03 / C13: a sequence of operations at step
boundaries on W simulated ranks, with value-agnostic (float) tensors and
symbolic update intervals / starting step count.

ops: 'train', 'eval', 'sd' (state_dict on all ranks), 'sd0' (rank 0 only),
'mem', 'mem0', 'load' (state -> fresh object, compute_inverses=True),
'load-noinv', 'reset'.
"""

from __future__ import annotations

import torch

from vkit import harness as H
from vkit import kfh
from vkit import symex
from vkit.symex import And

MODELS = {
    'two': [('linear', 2, 2, True), ('linear', 2, 1, False)],
    'four': [('linear', 2, 2, True), ('linear', 2, 1, False), ('linear', 1, 3, True), ('linear', 3, 1, True)],
    'conv': [('conv', 1, 2, (1, 2), (1, 1), (0, 0), True, 2, 2), ('linear', 2, 2, False)],
}


def _num(*k):
    h = 0
    for x in k:
        h = (h * 31 + int(x) + 7) % 1009
    return (h % 9 - 4) / 4.0


def _fill(shape, *key):
    if len(shape) == 1:
        return [_num(*key, i) for i in range(shape[0])]
    return [_fill(shape[1:], *key, i) for i in range(shape[0])]


def tensors_of(layer):
    """generic attribute walk: name -> tensor (waits on futures first)"""
    out = {}
    for name in list(vars(layer)):
        v = getattr(layer, name)
        if hasattr(v, 'wait') and not hasattr(v, 'shape'):
            try:
                v = v.wait()
            except Exception:  # noqa: BLE001
                continue
        if isinstance(v, torch.Tensor):
            out[name] = v
    return out


def classify(name):
    n = name.lstrip('_')
    if n in ('a_factor', 'g_factor'):
        return 'factor'
    if n in ('a_batch', 'g_batch'):
        return 'batch'
    if n in ('grad',):
        return 'grad'
    return 'second-order'


def run_history(cfg, eng):
    import kfac.preconditioner as P
    from kfac.enums import ComputeMethod, DistributedStrategy
    specs = MODELS[cfg['model']]
    w = cfg['world']
    if H.SHIM:
        torch._tensor.FLOAT_MODE[0] = True
    sym = eng.concrete is None
    # symbolic intervals and starting step
    if cfg.get('intervals') == 'sym':
        fus = eng.fresh_int('factor_update_steps')
        ius = eng.fresh_int('inv_update_steps')
        eng.assume(And(fus >= 1, ius >= 1), check=False)
        t0 = eng.fresh_int('steps0')
        eng.assume(t0 >= 1, check=False)
    elif cfg.get('intervals') == 'callable':
        ffu, fiu = eng.fresh_func('fus_at', real=False), eng.fresh_func('ius_at', real=False)

        def fus(k, f=ffu):
            v = f(k)
            eng.assume(v >= 1, check=False) if sym else None
            return v

        def ius(k, f=fiu):
            v = f(k)
            eng.assume(v >= 1, check=False) if sym else None
            return v
        t0 = eng.fresh_int('steps0')
        eng.assume(t0 >= 1, check=False)
    else:
        fus, ius = cfg.get('fus', 1), cfg.get('ius', 1)
        t0 = None
    k = cfg['k']
    frac = getattr(DistributedStrategy, k) if isinstance(k, str) else k / w
    method = cfg.get('method', 'eigen')
    acc = cfg.get('acc', 1)
    ops = cfg['ops']
    info = {'fus': fus, 'ius': ius, 't0': t0}

    def make(model):
        import warnings
        with warnings.catch_warnings():
            warnings.simplefilter('ignore')
            return P.KFACPreconditioner(
                model, factor_update_steps=fus, inv_update_steps=ius, damping=0.5, factor_decay=0.75, lr=0.5,
                kl_clip=0.25 if cfg.get('clip', True) else None, accumulation_steps=acc,
                allreduce_bucket_cap_mb={'zero': 0.0, 'huge': 25.0, 'tiny': 0.00002}[cfg.get('cap', 'huge')],
                colocate_factors=cfg.get('colocate', True), grad_worker_fraction=frac,
                symmetry_aware=cfg.get('symmetric', False),
                compute_method=ComputeMethod.INVERSE if method == 'inverse' else ComputeMethod.EIGEN,
                compute_eigenvalue_outer_product=(method == 'eigen-prediv'),
                update_factors_in_hook=cfg.get('hook', True))

    def rank(r):
        import torch.distributed as dist
        sim = dist.current_sim() if H.SHIM else None
        model, mods = kfh.build_model(specs)
        pre = make(model)
        obs = []

        def mark(label):
            if sim is not None:
                sim.log(r, 'mark', None, phase='mark', label=label)

        def observe(i, op):
            lay = {}
            for m, (name, layer) in pre._layers.items():
                held = {}
                for an, t in tensors_of(layer).items():
                    held[an] = (classify(an), t.nelement() * t.element_size(), tuple(t.shape))
                lay[name] = {'held': held, 'is_grad_worker': pre._assignment.is_grad_worker(name),
                             'inv_workers': {f: pre._assignment.inv_worker(name, f) for f in ('A', 'G')},
                             'src': pre._assignment.src_grad_worker(name)}
            obs.append({'op': op, 'i': i, 'steps': pre.steps, 'layers': lay})

        mark('constructed')
        started = False
        for i, op in enumerate(ops):
            mark(f'op{i}:{op}:begin')
            if op == 'train':
                fu_now = (pre.steps % pre.factor_update_steps == 0)
                iu_now = (pre.steps % pre.inv_update_steps == 0)
                for mb in range(acc):
                    for li, (spec, mod) in enumerate(zip(specs, mods)):
                        kfh.feed(mod, _fill(kfh.x_shape(spec, 2), r, i, mb, li), _fill(kfh.gy_shape(spec, 2), r, i, mb, li, 1))
                for li, (spec, mod) in enumerate(zip(specs, mods)):
                    ws, bs = kfh.grad_shapes(spec)
                    kfh.set_grads(mod, spec, _fill(ws, i, li), _fill(bs, i, li, 2))
                pre.step()
                observe(i, op)
                obs[-1]['factor_update'] = bool(fu_now)
                obs[-1]['inv_update'] = bool(iu_now)
                if not started and t0 is not None:
                    # arbitrary boundary state: factors exist, step count symbolic
                    pre.load_state_dict({'steps': t0}, compute_inverses=False)
                started = True
            elif op == 'eval':
                for li, (spec, mod) in enumerate(zip(specs, mods)):
                    mod.eval()
                    kfh.feed(mod, _fill(kfh.x_shape(spec, 2), r, i, 9, li), _fill(kfh.gy_shape(spec, 2), r, i, 9, li, 1))
                    mod.train()
                observe(i, op)
            elif op in ('sd', 'sd0'):
                if op == 'sd' or r == 0:
                    pre.state_dict()
                observe(i, op)
            elif op in ('mem', 'mem0'):
                if op == 'mem' or r == 0:
                    mu = dict(pre.memory_usage())
                    observe(i, op)
                    obs[-1]['memory_usage'] = mu
                else:
                    observe(i, op)
            elif op in ('load', 'load-noinv'):
                sd = pre.state_dict()
                path = f'ckpt_{r}'
                if not H.SHIM:
                    import os
                    import tempfile
                    path = os.path.join(tempfile.gettempdir(), f'vk_ckpt_{os.getpid()}_{r}')
                torch.save(sd, path)
                model, mods = kfh.build_model(specs)
                pre = make(model)
                loaded = torch.load(path)
                if not H.SHIM:
                    os.remove(path)
                pre.load_state_dict(loaded, compute_inverses=(op == 'load'))
                if op == 'load-noinv':
                    # documented precondition: without recomputing the inverses the
                    # next iteration must be an inverse-update step
                    c = (pre.steps % pre.inv_update_steps == 0)
                    if isinstance(c, bool):
                        if not c:
                            raise symex.PathAbort('load without inverses off an inverse-update step')
                    else:
                        eng.assume(c)
                observe(i, op)
            elif op == 'reset':
                pre.reset_batch()
                observe(i, op)
            mark(f'op{i}:{op}:end')
        return obs

    wr = kfh.run_world(w, rank, eng, policy=cfg.get('policy', 'rr'), seed=cfg.get('seed', 0),
                       preempt=cfg.get('preempt', False))
    wr.info = info
    wr.specs = specs
    return wr
