"""C06 -- KAISA work assignment is well-formed and identical on every rank.

(a) relations: for a world size W, a divisor k and symbolic per-factor costs,
all W `KAISAAssignment` instances (one per local rank) are constructed inside
one path and their public query methods are compared under the same path
condition.
(b) fraction acceptance: `KAISAAssignment.__init__` (and the fraction branch of
`KFACPreconditioner.__init__`) are executed with world_size / k as bounded
bit-vector integers and `k / world_size` as an IEEE-754 double term; the
solver is asked whether the `raise ValueError` is reachable (see fpaccept.py).
"""

from __future__ import annotations

from vkit import symex
from vkit.framework import Prop
from vkit.symex import And


def divisors(n):
    return [k for k in range(1, n + 1) if n % k == 0]


class C06(Prop):
    id = 'C06'
    title = 'KAISA work assignment is well-formed and identical on every rank'
    assumptions = [
        'costs are exact reals >= 0 (A-real)',
        'A-hash: iteration order of set[frozenset[int]] is the one of this CPython build',
        'fraction acceptance (b): IEEE-754 binary64, round-to-nearest-even, as z3 models it',
    ]
    stubs = ['group_func: records the rank list and returns it as the handle',
             'kfac.assignment.int -> sym_int (truncation; exact on python floats)']
    trusted_base = ['z3 5.1.0 (LRA for costs, QF_FP/QF_BV for the fraction check)',
                    'vkit.symex', 'oracle grid_ref in this file']
    task_timeout = {'quick': 400, 'thorough': 3000}

    def bounds(self, tier):
        return {
            'world_size': '1..8 with 2 layers, 9..16 with 1 layer' if tier == 'quick'
            else '1..16 with 2 layers (3 layers for W<=4), 17..64 with 1 layer',
            'grad_workers': 'every divisor k of W, passed as the float k/W',
            'layers': '1..2 (quick), 1..3 (thorough); 2 factors each',
            'local_rank': 'all W instances in one path',
            'colocate_factors': [True, False],
            'fraction_acceptance_bits': 8 if tier == 'quick' else 11,
        }

    def configs(self, tier, seed):
        out = []
        if tier == 'quick':
            plan = [(w, 2) for w in range(1, 9)] + [(w, 1) for w in (9, 10, 12, 15, 16)]
        else:
            plan = [(w, 3) for w in range(1, 5)] + [(w, 2) for w in range(1, 17)] + \
                   [(w, 1) for w in list(range(17, 33)) + [36, 40, 48, 49, 56, 60, 64]]
        for w, nl in plan:
            for k in divisors(w):
                for col in (True, False):
                    out.append({'harness': 'grid', 'world': w, 'k': k, 'layers': nl, 'colocate': col})
        from vkit.props import fpaccept
        out = fpaccept.configs(tier) + out
        return out

    def run(self, cfg, eng):
        if cfg['harness'].startswith('fp-'):
            from vkit.props import fpaccept
            return fpaccept.run_harness(cfg, eng)
        import kfac.assignment as A
        w, k, nl, col = cfg['world'], cfg['k'], cfg['layers'], cfg['colocate']
        lnames = ['l1', 'l0', 'l2'][:nl]
        work = {}
        for ln in lnames:
            work[ln] = {}
            for f in ('A', 'G'):
                c = eng.fresh_real(f'cost_{ln}_{f}')
                eng.assume(c >= 0, check=False)
                work[ln][f] = c
        frac = k / w
        inst, calls = [], []
        for r in range(w):
            rec = []

            def gf(ranks, rec=rec):
                rec.append(list(ranks))
                return ('pg', tuple(sorted(ranks)))
            try:
                a = A.KAISAAssignment(
                    {ln: dict(d) for ln, d in work.items()}, local_rank=r, world_size=w,
                    grad_worker_fraction=frac, group_func=gf, colocate_factors=col)
            except ValueError as e:
                eng.oblige('fraction-k/W-accepted', False, info={'error': str(e)})
                return
            inst.append(a)
            calls.append(rec)
        eng.witness('all ranks constructed')
        part = w // k

        # same group creation sequence everywhere
        eng.oblige('group_func-called-with-same-lists-in-same-order',
                   all(c == calls[0] for c in calls), info={'rank0': str(calls[0])})
        created = [tuple(sorted(c)) for c in calls[0]]
        eng.oblige('no-group-created-twice', len(set(created)) == len(created))

        # partitions (public static helpers)
        gw = A.KAISAAssignment.partition_grad_workers(w, k)
        gr = A.KAISAAssignment.partition_grad_receivers(w, k)

        def is_partition(parts, size, count):
            allr = sorted(x for p in parts for x in p)
            return allr == list(range(w)) and all(len(p) == size for p in parts) and len(parts) == count
        eng.oblige('worker-groups-partition-world-into-equal-parts', is_partition(gw, k, part))
        eng.oblige('receiver-groups-partition-world-into-equal-parts', is_partition(gr, part, k))
        eng.oblige('worker-and-receiver-groups-meet-in-exactly-one-rank',
                   all(len(set(a_) & set(b_)) == 1 for a_ in gw for b_ in gr))
        eng.oblige('every-grid-group-is-created',
                   set(created) == {tuple(sorted(p)) for p in gw} | {tuple(sorted(p)) for p in gr})

        for ln in lnames:
            # agreement on inverse workers
            ivs = [{f: a.inv_worker(ln, f) for f in ('A', 'G')} for a in inst]
            eng.oblige('same-inverse-worker-on-every-rank', all(v == ivs[0] for v in ivs),
                       info={'layer': ln, 'views': str(ivs[:4])})
            iv = ivs[0]
            eng.oblige('inverse-worker-is-a-rank',
                       all(isinstance(x, int) and 0 <= x < w for x in iv.values()))
            wg = {r for r in range(w) if inst[r].is_grad_worker(ln)}
            eng.oblige('gradient-worker-group-has-k-members', len(wg) == k, info={'layer': ln, 'wg': str(wg)})
            eng.oblige('gradient-worker-group-is-a-grid-column', frozenset(wg) in gw)
            eng.oblige('inverse-workers-inside-the-gradient-worker-group',
                       all(x in wg for x in iv.values()), info={'layer': ln, 'iv': str(iv), 'wg': str(wg)})
            if col:
                eng.oblige('colocated-inverse-workers', len(set(iv.values())) == 1)
            for r in range(w):
                a = inst[r]
                hw = a.grad_worker_group(ln)
                hr = a.grad_receiver_group(ln)
                ok = (isinstance(hw, tuple) and set(hw[1]) == wg
                      and isinstance(hr, tuple) and r in hr[1] and frozenset(hr[1]) in gr)
                eng.oblige('group-handles-are-the-layer-column-and-own-row', ok,
                           info={'rank': r, 'layer': ln, 'hw': str(hw), 'hr': str(hr)})
                if not ok:
                    return
                src = a.src_grad_worker(ln)
                eng.oblige('gradient-source-is-a-worker-in-own-receiver-group',
                           src in wg and src in hr[1], info={'rank': r, 'layer': ln, 'src': src})
                if r in wg:
                    eng.oblige('gradient-worker-is-its-own-source', src == r, info={'rank': r, 'src': src})
        for a in inst:
            eng.oblige('broadcast-flags-match-strategy',
                       a.broadcast_gradients() == (k < w) and a.broadcast_inverses() == (k > 1))
            eng.oblige('layers-and-factors-listed',
                       set(a.get_layers()) == set(lnames)
                       and all(set(a.get_factors(ln)) == {'A', 'G'} for ln in lnames))

PROP = C06()
