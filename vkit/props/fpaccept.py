"""C06 (b): every fraction k/world_size with k | world_size is accepted.

The real constructors run with world_size and k as bounded bit-vector
integers and `k / world_size` as an IEEE-754 double term; the path is cut
after the integrality check (partition_grad_workers raises CutPath).  The
`raise ValueError` being reachable is a solver question in QF_FP/QF_BV.
The world-size range is split into chunks decided in parallel.
"""

from __future__ import annotations

try:
    import z3
except ImportError:  # replay interpreter
    z3 = None

from vkit import symex, symfp


class CutPath(Exception):
    pass


def configs(tier):
    bits = 8 if tier == 'quick' else 11
    top = 1 << bits
    nchunk = 1 if tier == 'quick' else 4
    step = top // nchunk
    out = []
    for h in ('fp-preconditioner', 'fp-assignment'):
        for i in range(nchunk):
            out.append({'harness': h, 'lo': max(1, i * step), 'hi': (i + 1) * step,
                        '_engine': {'check_timeout_ms': 900000, 'oblige_timeout_ms': 900000,
                                    'backend': 'cvc5'}})
    return out


def run_harness(cfg, eng):
    import kfac.assignment as A
    sym = eng.concrete is None
    K = symfp.fresh_bv(eng, 'grad_workers')
    if 'world' in cfg:
        # world size enumerated (a size bound), gradient-worker count symbolic
        W = cfg['world']
        if sym:
            eng.assume(symex.mk_bool(z3.And(
                z3.UGE(K.e, 1), z3.ULE(K.e, W), z3.URem(z3.BitVecVal(W, symfp.BITS), K.e) == 0)))
        else:
            eng.assume(1 <= K <= W and W % K == 0)
    else:
        W = symfp.fresh_bv(eng, 'world_size')
        if sym:
            eng.assume(symex.mk_bool(z3.And(
                z3.UGE(W.e, cfg['lo']), z3.ULT(W.e, cfg['hi']),
                z3.UGE(K.e, 1), z3.ULE(K.e, W.e), z3.URem(W.e, K.e) == 0)))
        else:
            eng.assume(1 <= K <= W and W % K == 0)
    frac = K / W  # fp.div RNE (python: int / int true division)
    work = {'l': {'A': 1.0, 'G': 1.0}}

    if cfg['harness'] == 'fp-assignment':
        old_int = A.int if hasattr(A, 'int') else int
        A.int = symfp.fp_sym_int if sym else int
        cls = A.KAISAAssignment
        if sym:
            def cut(*a, **k):
                raise CutPath()
            cls = type('KAISAAssignmentCut', (A.KAISAAssignment,),
                       {'partition_grad_workers': staticmethod(cut)})
        try:
            cls(work, local_rank=0, world_size=W, grad_worker_fraction=frac,
                group_func=lambda r: None, colocate_factors=True)
            eng.witness('accepted')
            eng.oblige('fraction-k/W-accepted', True)
        except CutPath:
            eng.witness('accepted (cut after the integrality check)')
            eng.oblige('fraction-k/W-accepted', True)
        except ValueError as e:
            eng.oblige('fraction-k/W-accepted', False,
                       info={'site': 'kfac/assignment.py:KAISAAssignment.__init__', 'error': str(e)[:200]})
        finally:
            A.int = old_int
        return

    # fraction branch of KFACPreconditioner.__init__ followed by the assignment
    import torch
    import kfac.preconditioner as P
    saved = (P.get_world_size, P.KAISAAssignment, getattr(A, 'int', int))
    A.int = symfp.fp_sym_int if sym else int
    try:
        if sym:
            def cut(*a, **k):
                raise CutPath()
            P.KAISAAssignment = type('KAISAAssignmentCut', (A.KAISAAssignment,),
                                     {'partition_grad_workers': staticmethod(cut)})
        P.get_world_size = lambda *a: W
        m = torch.nn.Linear(1, 1)
        try:
            P.KFACPreconditioner(m, grad_worker_fraction=frac)
            eng.witness('accepted')
            eng.oblige('fraction-k/W-accepted', True)
        except CutPath:
            eng.witness('accepted (cut after the integrality checks)')
            eng.oblige('fraction-k/W-accepted', True)
        except ValueError as e:
            eng.oblige('fraction-k/W-accepted', False,
                       info={'site': 'kfac/preconditioner.py:KFACPreconditioner.__init__', 'error': str(e)[:200]})
    finally:
        P.get_world_size, P.KAISAAssignment, A.int = saved
