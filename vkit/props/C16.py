"""C16 -- exactly the eligible layers are registered, once each.

Module trees are enumerated from a small grammar; the names of some children
are *symbolic strings* (identifier-like, length <= 8) and every parameter's
requires_grad flag is a symbolic boolean, so qualified names and pattern hits
are decided by z3's sequence / regular-expression theory through `symre`.
The oracle is an independent walk of the tree description.
"""

from __future__ import annotations

import torch

from vkit import harness as H
from vkit import symex, symre
from vkit.framework import Prop, pick
from vkit.symex import And, Not, Or

SKIPS = [[], ['fc'], ['^fc'], ['1$'], ['^Linear$'], ['Linear'], ['conv|emb'], [r'\.lin'], ['^block', 'head$'], ['MyLinear'],
         ['[0-9]+'], [r'^fc1$'], [r'attention\.dense', 'embed'], ['^My', 'b$'], [r'1\.L']]


def build(eng, tree):
    """-> (root, nodes) ; nodes: list of dict(module, path (list of name parts), kind, leaf)"""
    nn = torch.nn

    class Net(nn.Module):
        pass

    class MyLinear(nn.Linear):
        pass

    class MyConv(nn.Conv2d):
        pass
    S1 = symre.fresh_str(eng, 'name1')
    S2 = symre.fresh_str(eng, 'name2')
    if eng.concrete is None:
        eng.assume(S1 != S2, check=False)
        for fixed in ('act', 'conv', 'head', 'b', 'emb', 'norm', 'deep', 'inner', 'block'):
            eng.assume(And(S1 != fixed, S2 != fixed), check=False)
    elif S1 == S2 or S1 in ('act', 'conv', 'head', 'b', 'emb', 'norm', 'deep', 'inner', 'block') or S2 in ('act', 'conv', 'head', 'b', 'emb', 'norm', 'deep', 'inner', 'block'):
        raise symex.PathAbort('duplicate names')
    nodes = []
    root = Net()

    def add(parent, ppath, name, m, kind, leaf=True):
        parent.add_module(name, m)
        nodes.append({'module': m, 'path': ppath + [name], 'kind': kind, 'leaf': leaf})
        return m
    if tree == 'flat':
        add(root, [], S1, nn.Linear(2, 2), 'linear')
        add(root, [], 'act', nn.ReLU(), 'other')
        add(root, [], S2, nn.Linear(2, 1, bias=False), 'linear')
    elif tree == 'nested':
        blk = add(root, [], S1, Net(), 'container', leaf=False)
        add(blk, [S1], 'conv', nn.Conv2d(1, 1, 1), 'conv')
        add(blk, [S1], S2, MyLinear(1, 2), 'linear')
        add(root, [], 'head', nn.Linear(2, 1), 'linear')
    elif tree == 'shared':
        m = nn.Linear(1, 1)
        add(root, [], S1, m, 'linear')
        root.add_module('b', m)     # the same instance under a second name
        add(root, [], 'emb', nn.Embedding(2, 1), 'other')
        add(root, [], S2, nn.Linear(1, 2, bias=False), 'linear')
    elif tree == 'mixed':
        add(root, [], 'norm', nn.LayerNorm(1), 'other')
        add(root, [], S1, MyConv(1, 2, (1, 2)), 'conv')
        deep = add(root, [], 'deep', Net(), 'container', leaf=False)
        inner = add(deep, ['deep'], 'inner', Net(), 'container', leaf=False)
        add(inner, ['deep', 'inner'], S2, nn.Linear(2, 2), 'linear')
        add(root, [], 'block', nn.Sequential(), 'other')   # parameter-less leaf container
    return root, nodes


def qname(path):
    out = path[0]
    for p in path[1:]:
        out = out + '.' + p
    return out


class C16(Prop):
    id = 'C16'
    title = 'Exactly the eligible layers are registered, once each'
    assumptions = ['regular-expression subset: literals, ., classes, \\d \\w, |, groups, * + ? {m,n}, ^ / $ at the ends; translation validated '
                   'differentially against `re` on every run; other constructs are reported not-encodable',
                   'symbolic names are identifier-like strings of length <= 8 over [a-z0-9_], distinct from the fixed sibling names']
    stubs = ['kfac.layers.register.re -> symre (z3 regular expressions on symbolic strings, real `re` on concrete ones)']
    trusted_base = ['z3 5.1.0 (sequence theory)', 'vkit.symex', 'vkit.symre', 'symtorch nn.Module tree (named_modules with identity memo)']
    task_timeout = {'quick': 300, 'thorough': 1800}

    def bounds(self, tier):
        return {'trees': ['flat', 'nested', 'shared', 'mixed'], 'skip_lists': SKIPS if tier == 'thorough' else 'hash-sampled subset of ' + str(len(SKIPS)),
                'symbolic': 'two child names per tree (strings), requires_grad of every parameter (booleans)',
                'gpt_neox_variant': 'Column/RowParallelLinear keyed on lower-cased class names'}

    def configs(self, tier, seed):
        out = []
        for tree in ('flat', 'nested', 'shared', 'mixed'):
            for si, sk in enumerate(SKIPS):
                if tier == 'quick' and not pick((tree, si), 2, seed) and si not in (0, 4, 11):
                    continue
                out.append({'harness': 'register', 'tree': tree, 'skip': sk})
        for sk in ([], ['column'], ['^row', '1$'], ['Linear'], ['parallel']):
            out.append({'harness': 'neox-register', 'skip': sk})
        out.append({'harness': 'regex-translation'})
        return out

    def run(self, cfg, eng):
        if cfg['harness'] == 'regex-translation':
            if eng.concrete is not None:
                raise symex.PathAbort('translation self-test')
            bad = symre.selftest(eng.seed, 300)
            eng.witness('translation self-test ran')
            eng.oblige('regex-translation-agrees-with-re-on-random-strings', not bad, info={'bad': str(bad[:3])})
            return
        if cfg['harness'] == 'neox-register':
            return self.neox(cfg, eng)
        import kfac.layers.register as R
        import kfac.preconditioner as P
        old_re = R.re
        R.re = symre.SymRe()
        try:
            root, nodes = build(eng, cfg['tree'])
            flags = {}
            for n in nodes:
                for pn, p in n['module'].named_parameters(recurse=False):
                    if id(p) in flags:
                        continue
                    f = eng.fresh_bool(f'rg_{len(flags)}')
                    flags[id(p)] = f
                    p.requires_grad = f
            pre = P.KFACPreconditioner(root, skip_layers=list(cfg['skip']))
        finally:
            R.re = old_re
        eng.witness('registered')
        layers = pre._layers
        reg = {id(m): (m, name) for m, (name, _) in layers.items()}
        seen = set()
        expected_n = 0
        for n in nodes:
            m = n['module']
            if id(m) in seen:
                continue
            seen.add(id(m))
            qn = qname(n['path'])
            cname = type(m).__name__
            elig = n['leaf'] and n['kind'] in ('linear', 'conv')
            if elig:
                trainable = And(*[flags[id(p)] for p in m.parameters()]) if list(m.parameters()) else True
                skipped = Or(*([symre.found(p, qn) for p in cfg['skip']] + [symre.found(p, cname) for p in cfg['skip']])) \
                    if cfg['skip'] else False
                E = And(trainable, Not(skipped))
            else:
                E = False
            is_reg = id(m) in reg
            eng.oblige('registered-iff-leaf-supported-trainable-and-not-skipped', E if is_reg else Not(E),
                       info={'module': cname, 'path': str(n['path']), 'registered': is_reg, 'skip': str(cfg['skip'])})
            if is_reg:
                expected_n += 1
                got = reg[id(m)][1]
                eng.oblige('registered-under-its-first-qualified-name', got == qn, info={'got': str(got), 'want': str(qn)})
                eng.oblige('hooks-installed-exactly-once', len(m._forward_pre_hooks) == 1 and len(m._backward_hooks) == 1,
                           info={'fwd': len(m._forward_pre_hooks), 'bwd': len(m._backward_hooks)})
            else:
                eng.oblige('unregistered-modules-left-untouched', len(m._forward_pre_hooks) == 0 and len(m._backward_hooks) == 0)
        eng.oblige('nothing-else-registered', len(layers) == expected_n and all(id(m) in seen for m in layers),
                   info={'registered': len(layers)})
        eng.oblige('root-and-containers-untouched', len(root._forward_pre_hooks) == 0 and len(root._backward_hooks) == 0)

    def neox(self, cfg, eng):
        if not H.SHIM:
            raise symex.PathAbort('GPT-NeoX registration needs the deepspeed stand-in (shim only)')
        import kfac.distributed as D
        import kfac.gpt_neox.preconditioner as GP
        import kfac.layers.register as R
        from kfac.enums import AllreduceMethod
        nn = torch.nn

        class ColumnParallelLinear(nn.Linear):
            pass

        class RowParallelLinear(nn.Linear):
            pass

        class Net(nn.Module):
            pass
        S1 = symre.fresh_str(eng, 'name1')
        eng.assume(And(S1 != 'plain', S1 != 'act'), check=False)
        root = Net()
        col = ColumnParallelLinear(2, 2)
        row = RowParallelLinear(2, 2)
        plain = nn.Linear(2, 2)
        root.add_module(S1, col)
        root.add_module('row1', row)
        root.add_module('plain', plain)
        root.add_module('act', nn.ReLU())
        flags = {}
        for m in (col, row, plain):
            for p in m.parameters():
                f = eng.fresh_bool(f'rg_{len(flags)}')
                flags[id(p)] = f
                p.requires_grad = f
        old_re = R.re
        R.re = symre.SymRe()
        try:
            layers = GP.register_modules(root, model_parallel_group=None, skip_layers=list(cfg['skip']),
                                         allreduce_method=AllreduceMethod.ALLREDUCE, grad_scaler=None, factor_dtype=None,
                                         inv_dtype=torch.float32, symmetry_aware=False, tdc=D.TorchDistributedCommunicator())
        finally:
            R.re = old_re
        eng.witness('neox registered')
        for m, nm in ((col, S1), (row, 'row1'), (plain, 'plain')):
            cname = type(m).__name__.lower()
            supported = cname in ('columnparallellinear', 'rowparallellinear')
            trainable = And(*[flags[id(p)] for p in m.parameters()])
            skipped = Or(*([symre.found(p, nm) for p in cfg['skip']] + [symre.found(p, cname) for p in cfg['skip']])) if cfg['skip'] else False
            E = And(trainable, Not(skipped)) if supported else False
            is_reg = m in layers
            eng.oblige('neox: registered-iff-parallel-linear-trainable-and-not-skipped', E if is_reg else Not(E),
                       info={'class': cname, 'registered': is_reg})
            if is_reg:
                eng.oblige('neox: parallelism-kind-from-class-name',
                           layers[m][1].parallelism == ('output' if cname.startswith('column') else 'input'))
        eng.oblige('neox: nothing-else-registered', all(m in (col, row, plain) for m in layers))


PROP = C16()
