"""C19 -- hyperparameter schedulers apply multiplicative factors deterministically.

The real LambdaParamScheduler drives a real BaseKFACPreconditioner (no
layers).  Initial values, the preconditioner's step count, the explicit step
arguments and the six factor functions (uninterpreted Int -> Real) are
symbolic; which parameters are scheduled / callable is enumerated.
"""

from __future__ import annotations

import itertools

from vkit import symex
from vkit.framework import Prop
from vkit.symex import And, Implies, Or

PARAMS = ['factor_update_steps', 'inv_update_steps', 'damping', 'factor_decay', 'kl_clip', 'lr']
INTS = {'factor_update_steps', 'inv_update_steps'}


def _dummy_assignment():
    import kfac.assignment as A

    class Dummy(A.WorkAssignment):
        def broadcast_gradients(self): return False
        def broadcast_inverses(self): return False
        def get_layers(self): return ()
        def get_factors(self, layer): return ()
        def inv_worker(self, layer, factor): return 0
        def is_grad_worker(self, layer): return True
        def src_grad_worker(self, layer): return 0
        def factor_group(self, layer, factor): return None
        def grad_worker_group(self, layer): return None
        def grad_receiver_group(self, layer): return None
    return Dummy()


def is_trunc(r, x):
    """r == trunc(x) as a relation (independent of sym_int's formula)."""
    return And(Implies(x >= 0, And(r <= x, x < r + 1)),
               Implies(x < 0, And(r - 1 < x, x <= r)))


class C19(Prop):
    id = 'C19'
    title = 'Hyperparameter schedulers apply multiplicative factors deterministically'
    assumptions = ['hyperparameters and factors are exact reals (A-real); a Float64 treatment of '
                   '1 - 1/k is outside the claim',
                   'factor functions are arbitrary (uninterpreted) Int -> Real functions']
    stubs = ['kfac.scheduler.int -> sym_int (python truncation toward zero on symbolic numbers)']
    trusted_base = ['z3 5.1.0', 'vkit.symex']

    def bounds(self, tier):
        return {'scheduler_steps': 2 if tier == 'quick' else 3,
                'scheduled_subsets': 'each single parameter, all six, all pairs (thorough: all 64 subsets)',
                'callable_parameters': 'each single parameter callable, scheduled or not',
                'values': 'symbolic: initial values, step counts, explicit step arguments, factor functions'}

    def configs(self, tier, seed):
        out = []
        subsets = [[p] for p in PARAMS] + [list(PARAMS)]
        if tier == 'quick':
            subsets += [list(c) for c in itertools.combinations(PARAMS, 2)][::3]
        else:
            subsets = [list(c) for r in range(0, 7) for c in itertools.combinations(PARAMS, r)]
        nsteps = 2 if tier == 'quick' else 3
        for sub in subsets:
            for explicit in itertools.product([False, True], repeat=nsteps):
                out.append({'harness': 'scheduler', 'scheduled': sub, 'explicit': list(explicit)})
        for c in PARAMS:
            for s in PARAMS:
                if tier == 'quick' and s != c and (PARAMS.index(s) + PARAMS.index(c)) % 3:
                    continue
                out.append({'harness': 'callable-refused', 'callable': c, 'scheduled': [s]})
        out.append({'harness': 'exp-decay'})
        return out

    def run(self, cfg, eng):
        getattr(self, 'h_' + cfg['harness'].replace('-', '_'))(cfg, eng)

    # ----------------------------------------------------------------
    def _precond(self, eng, callables=()):
        import kfac.base_preconditioner as B
        import kfac.distributed as D
        init = {}
        for p in PARAMS:
            if p in callables:
                f = eng.fresh_func('user_' + p, real=p not in INTS)
                init[p] = (lambda k, f=f: f(k))
                continue
            v = eng.fresh_int('init_' + p) if p in INTS else eng.fresh_real('init_' + p)
            init[p] = v
        for p in PARAMS:
            if p in callables:
                continue
            v = init[p]
            if p in INTS:
                eng.assume(v >= 1, check=False)
            elif p == 'factor_decay':
                eng.assume(And(v > 0, v <= 1), check=False)
            elif p == 'lr':
                eng.assume(v >= 0, check=False)
            else:
                eng.assume(v > 0, check=False)
        import warnings
        with warnings.catch_warnings():
            warnings.simplefilter('ignore')
            pre = B.BaseKFACPreconditioner(
                {}, assignment=_dummy_assignment(), tdc=D.TorchDistributedCommunicator(), **init)
        return pre, init

    def h_scheduler(self, cfg, eng):
        import kfac.scheduler as S
        pre, init = self._precond(eng)
        sched = cfg['scheduled']
        lambdas = {p: eng.fresh_func('fac_' + p) for p in sched}
        s = S.LambdaParamScheduler(pre, **{p + '_lambda': lambdas[p] for p in sched})
        expect = dict(init)
        for i, explicit in enumerate(cfg['explicit']):
            t = eng.fresh_int(f'steps_{i}')
            eng.assume(t >= 0, check=False)
            pre.load_state_dict({'steps': t}, compute_inverses=False)
            eng.oblige('step-count-restored', pre.steps == t)
            arg = None
            if explicit:
                arg = eng.fresh_int(f'explicit_{i}')
            s.step(arg) if explicit else s.step()
            at = arg if explicit else t
            for p in PARAMS:
                got = getattr(pre, p)
                if p in sched:
                    prod = expect[p] * lambdas[p](at)
                    if p in INTS:
                        ok = is_trunc(got, prod)
                        if isinstance(got, symex.SymNum):
                            ok = And(ok, got.is_int)
                        else:
                            ok = And(ok, isinstance(got, int))
                        eng.oblige('interval-is-truncated-product', ok,
                                   info={'param': p, 'step': i, 'explicit': explicit})
                    else:
                        eng.oblige_eq('scheduled-parameter-is-multiplied-by-its-factor-at-the-step',
                                      got, prod, info={'param': p, 'step': i, 'explicit': explicit})
                    expect[p] = got
                else:
                    eng.oblige('unscheduled-parameter-unchanged', got is expect[p] or (
                        not isinstance(got, symex.SymNum) and got == expect[p]),
                        info={'param': p, 'step': i})
            eng.oblige('scheduler-does-not-advance-the-step-count', pre.steps == t)
        eng.witness('scheduler steps done')

    def h_callable_refused(self, cfg, eng):
        import kfac.scheduler as S
        c, sched = cfg['callable'], cfg['scheduled']
        pre, init = self._precond(eng, callables=(c,))
        lambdas = {p: eng.fresh_func('fac_' + p) for p in sched}
        raised = False
        try:
            S.LambdaParamScheduler(pre, **{p + '_lambda': lambdas[p] for p in sched})
        except ValueError:
            raised = True
        eng.oblige('ValueError-iff-a-scheduled-parameter-is-callable', raised == (c in sched),
                   info={'callable': c, 'scheduled': sched, 'raised': raised})
        # the callable parameter is evaluated at the current step count
        t = eng.fresh_int('steps')
        eng.assume(t >= 0, check=False)
        pre.load_state_dict({'steps': t}, compute_inverses=False)
        want = init[c](t)
        eng.oblige_eq('callable-parameter-evaluated-at-current-step', getattr(pre, c), want)
        eng.witness('constructed')

    def h_exp_decay(self, cfg, eng):
        import kfac.hyperparams as HP
        cap = eng.fresh_real('min_value')
        try:
            f = HP.exp_decay_factor_averaging(cap)
            made = True
        except ValueError:
            made = False
        eng.oblige('ValueError-iff-cap-nonpositive', symex.ite(cap <= 0, not made, made))
        if not made:
            eng.witness('cap rejected')
            return
        k1 = eng.fresh_int('k1')
        k2 = eng.fresh_int('k2')
        vals = []
        for k in (k1, k2):
            try:
                v = f(k)
                vals.append(v)
                eng.oblige('accepts-nonnegative-steps', k >= 0)
                kk = symex.ite(k >= 1, k, 1)
                ref = symex.ite(1 - 1 / kk <= cap, 1 - 1 / kk, cap)
                eng.oblige_eq('value-is-min(1-1/max(k,1),cap)', v, ref)
                eng.oblige('value-within-[0,cap]', And(v >= 0, v <= cap))
            except ValueError:
                eng.oblige('ValueError-only-for-negative-steps', k < 0)
                vals.append(None)
        if vals[0] is not None and vals[1] is not None:
            eng.oblige('non-decreasing-in-k', Implies(k1 <= k2, vals[0] <= vals[1]))
        eng.witness('evaluated')


PROP = C19()
