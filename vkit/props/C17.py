"""C17 -- greedy work assignment is complete, confined, balanced, deterministic.

The real `KAISAAssignment.greedy_assignment` is executed with symbolic costs
(z3 reals >= 0); every comparison the function makes (sorting, min, index)
forks the path, so all orderings and all tie patterns that z3 finds feasible
are covered.  On each path the returned mapping is concrete and the oracle
(an independent specification of a valid longest-processing-time greedy
execution, tolerant of any tie-break) is a formula over the symbolic costs
that z3 must prove under the path condition.
"""

from __future__ import annotations

import copy
import itertools

from vkit import symex
from vkit.framework import Prop
from vkit.symex import And, Or


def _groups(tier):
    g = [
        [[0]],
        [[0, 1]],
        [[0], [1]],
        [[0, 1], [2, 3]],
        [[0, 2], [1, 3]],
        [[0], [1, 2]],
        [[1, 2, 0], [3]],
        [[0], [1], [2]],
        [[0, 4], [1, 5], [2, 6], [3, 7]],
        [[0, 1, 2, 3], [4, 5, 6, 7]],
    ]
    if tier == 'thorough':
        g += [[[0], [1], [2], [3]], [[0, 1, 2], [3, 4], [5]], [[3, 1], [0, 2]]]
    return g


class C17(Prop):
    id = 'C17'
    title = 'Greedy work assignment is complete, group-confined, balanced and deterministic'
    assumptions = [
        'costs are exact reals >= 0 (A-real); python float rounding of load sums is outside the claim',
        'A-py: CPython 3.11 executes kfac as 3.12 does',
    ]
    stubs: list = []
    trusted_base = ['z3 5.1.0', 'vkit.symex path explorer', 'oracle lpt_ref in this file']
    engine_opts = {'check_timeout_ms': 3000}

    def bounds(self, tier):
        return {
            'layers': '1..3 (and four single-factor layers)' if tier == 'quick' else '1..4',
            'factors_per_layer': '1..3',
            'world_size': '<= 8',
            'worker_group_partitions': _groups(tier),
            'costs': 'symbolic reals >= 0, unbounded (ties and zeros included)',
        }

    def configs(self, tier, seed):
        out = []
        shapes = [[2], [1], [3], [2, 2], [1, 3], [3, 2], [2, 2, 2], [1, 2, 3], [1, 1, 1, 1]]
        if tier == 'thorough':
            shapes += [[3, 3, 2], [2, 2, 2, 2], [1, 1, 2, 3]]
        for fs in shapes:
            for gi, g in enumerate(_groups(tier)):
                if len(fs) >= 3 and len(g) >= 3 and tier == 'quick' and sum(fs) > 6:
                    continue
                if len(fs) == 4 and (len(g) > 2 or sum(fs) > 8):
                    continue
                for col in (True, False):
                    if not col and sum(fs) > 7:
                        continue   # path explosion (8 independently placed factors): outside the bound
                    out.append({'harness': 'greedy', 'factors': fs, 'groups': g, 'colocate': col})
        return out

    # ---------------------------------------------------------------- harness
    def run(self, cfg, eng):
        import kfac.assignment as A
        fs, groups, col = cfg['factors'], cfg['groups'], cfg['colocate']
        fnames = ['A', 'G', 'H']
        # layer names chosen so that dict order != name order != cost order
        lnames = ['m', 'c', 'x', 'a'][:len(fs)]
        work = {}
        for ln, nf in zip(lnames, fs):
            work[ln] = {}
            for f in fnames[:nf][::-1] if ln == 'c' else fnames[:nf]:
                c = eng.fresh_real(f'cost_{ln}_{f}')
                eng.assume(c >= 0, check=False)
                work[ln][f] = c
        world = max(max(g) for g in groups) + 1
        work_before = {ln: dict(d) for ln, d in work.items()}
        groups_arg = copy.deepcopy(groups)

        res = A.KAISAAssignment.greedy_assignment(work, groups_arg, world, col)
        eng.witness('greedy returned')

        # -- structure: total, valid ranks, confinement, co-location
        ok_struct = set(res.keys()) == set(work.keys())
        for ln in lnames:
            ok_struct = ok_struct and set(res[ln].keys()) == set(work[ln].keys())
        eng.oblige('every-factor-assigned', ok_struct)
        if not ok_struct:
            return
        ranks_all = [r for g in groups for r in g]
        grp_of = {}
        for ln in lnames:
            ws = list(res[ln].values())
            eng.oblige('assigned-rank-is-a-worker',
                       all(isinstance(w, int) and not isinstance(w, bool) and w in ranks_all for w in ws),
                       info={'layer': ln, 'ranks': str(ws)})
            gids = {gi for gi, g in enumerate(groups) for w in ws if w in g}
            eng.oblige('layer-confined-to-one-group', len(gids) == 1, info={'layer': ln})
            if len(gids) != 1:
                return
            grp_of[ln] = gids.pop()
            if col:
                eng.oblige('colocated-on-one-worker', len(set(ws)) == 1, info={'layer': ln})

        total = {ln: sum(work_before[ln].values(), 0) for ln in lnames}

        # -- greedy validity: exists a non-increasing order of the layers under
        #    which every placement went to a then-least-loaded group and, inside
        #    it, to then-least-loaded workers (factors in non-increasing cost)
        def valid_for(order):
            loads = {r: 0 for r in ranks_all}
            conds = []
            for i in range(len(order) - 1):
                conds.append(total[order[i]] >= total[order[i + 1]])
            for ln in order:
                g = grp_of[ln]
                gl = [sum((loads[r] for r in grp), 0) for grp in groups]
                for h in range(len(groups)):
                    if h != g:
                        conds.append(gl[g] <= gl[h])
                if col:
                    w = next(iter(res[ln].values()))
                    for r in groups[g]:
                        if r != w:
                            conds.append(loads[w] <= loads[r])
                    loads = dict(loads)
                    loads[w] = loads[w] + total[ln]
                else:
                    facs = list(work_before[ln].keys())
                    alts = []
                    final = None
                    for perm in itertools.permutations(facs):
                        l2 = dict(loads)
                        cs = []
                        for i in range(len(perm) - 1):
                            cs.append(work_before[ln][perm[i]] >= work_before[ln][perm[i + 1]])
                        for f in perm:
                            w = res[ln][f]
                            for r in groups[g]:
                                if r != w:
                                    cs.append(l2[w] <= l2[r])
                            l2[w] = l2[w] + work_before[ln][f]
                        alts.append(And(*cs) if cs else True)
                        final = l2
                    conds.append(Or(*alts))
                    loads = final  # independent of the factor order
            return And(*conds) if conds else True

        spec = Or(*[valid_for(list(p)) for p in itertools.permutations(lnames)])
        eng.oblige('valid-greedy-execution-exists', spec,
                   info={'assignment': str(res)})

        # -- balance bounds
        loads = {r: 0 for r in ranks_all}
        for ln in lnames:
            for f, w in res[ln].items():
                loads[w] = loads[w] + work_before[ln][f]
        gl = [sum((loads[r] for r in grp), 0) for grp in groups]
        max_layer = symex.sym_max(*[total[ln] for ln in lnames]) if len(lnames) > 1 else total[lnames[0]]
        items = [total[ln] for ln in lnames] if col else \
            [c for ln in lnames for c in work_before[ln].values()]
        max_item = symex.sym_max(*items) if len(items) > 1 else items[0]
        cs = [gl[a] - gl[b] <= max_layer for a in range(len(groups)) for b in range(len(groups)) if a != b]
        eng.oblige('group-loads-differ-by-at-most-largest-layer', And(*cs) if cs else True)
        cs = [loads[u] - loads[v] <= max_item for grp in groups for u in grp for v in grp if u != v]
        eng.oblige('worker-loads-in-group-differ-by-at-most-largest-item', And(*cs) if cs else True)

        # -- purity / determinism
        same_args = (list(work.keys()) == list(work_before.keys())
                     and all(list(work[ln].keys()) == list(work_before[ln].keys())
                             and all(work[ln][k] is work_before[ln][k] for k in work_before[ln])
                             for ln in lnames)
                     and groups_arg == groups)
        eng.oblige('arguments-not-mutated', bool(same_args))
        res2 = A.KAISAAssignment.greedy_assignment(work, copy.deepcopy(groups), world, col)
        eng.oblige('second-call-same-result', res2 == res, info={'first': str(res), 'second': str(res2)})


PROP = C17()
