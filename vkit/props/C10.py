"""C10 -- a step touches nothing but the gradients of registered layers.

Model trees mix registered, skipped, frozen and unsupported modules.  Every
parameter, buffer and gradient is a symbolic tensor with an identity and a
version counter (bumped by every in-place write in the shim).  After step():
parameters / buffers / unregistered gradients are the same objects with
unchanged versions and values; registered gradients keep shape, dtype tag,
device and contiguity; every division / sqrt side condition holds (finite in
the reals).  Eval-mode hook calls leave all observable K-FAC state unchanged;
hooks return None and do not write to their arguments.
"""

from __future__ import annotations

import torch

from vkit import harness as H
from vkit import kfh
from vkit import oracle as O
from vkit import symex
from vkit.framework import Prop

MODELS = {
    # (name, kind, spec, trainable)
    'mixed': [('0', 'linear', ('linear', 2, 2, True), True), ('1', 'relu', None, True),
              ('2', 'linear', ('linear', 2, 1, False), True), ('3', 'layernorm', 1, True)],
    'frozen': [('0', 'linear', ('linear', 2, 1, True), False), ('1', 'linear', ('linear', 1, 2, True), True),
               ('2', 'embedding', (3, 2), True)],
    'skipped': [('0', 'conv', ('conv', 1, 1, (1, 2), (1, 1), (0, 0), True, 2, 2), True),
                ('skipme', 'linear', ('linear', 2, 2, True), True), ('2', 'batchnorm', 1, True),
                ('3', 'linear', ('linear', 1, 1, False), True)],
    'conv-first': [('0', 'conv', ('conv', 1, 2, (2, 1), (1, 1), (0, 0), False, 2, 2), True),
                   ('1', 'linear', ('linear', 2, 2, True), True)],
}
SKIP = {'skipped': ['skipme']}


class C10(Prop):
    id = 'C10'
    title = 'A step touches nothing but the gradients of registered layers'
    assumptions = ['A-real: "finite" is decided in the reals (no division by zero, no root of a negative); NaN/overflow are outside the claim',
                   'that autograd leaves outputs and gradients unchanged when a hook returns None without mutating its arguments is '
                   "torch's documented contract (validated for conv/linear in validate_shim), not something executed here",
                   'in-place writes are observed through the shim version counters (all in-place ops of the shim bump them)']
    stubs = ['torch.linalg.eigh / inv -> uninterpreted', 'math.sqrt -> contract stub']
    trusted_base = ['z3 5.1.0', 'vkit.symex', 'symtorch shim version counters']
    replay_tol = 1e-4

    def bounds(self, tier):
        return {'models': {k: [f'{n}:{kind}' for n, kind, _, _ in v] for k, v in MODELS.items()},
                'methods': ['eigen', 'eigen-prediv', 'inverse'], 'kl_clip': ['None', 'symbolic'],
                'dtype_tags': ['fp32', 'fp16 gradients'], 'values': 'all parameters, buffers, gradients and batches symbolic'}

    def configs(self, tier, seed):
        out = []
        for m in MODELS:
            for method in ('eigen', 'eigen-prediv', 'inverse'):
                for clip in (False, True):
                    if clip and method != 'eigen' and tier == 'quick':
                        continue
                    out.append({'harness': 'step', 'model': m, 'method': method, 'clip': clip,
                                'gdt': 'fp16' if (m == 'mixed' and not clip) else 'fp32'})
        for m in MODELS:
            out.append({'harness': 'eval', 'model': m})
            out.append({'harness': 'eval', 'model': m, 'acc': 2})
        return out

    # ------------------------------------------------------------------
    def build(self, eng, name, gdt=None):
        mods, specs = [], []
        for n, kind, spec, trainable in MODELS[name]:
            if kind in ('linear', 'conv'):
                m = kfh.build_layer(spec)
            elif kind == 'relu':
                m = torch.nn.ReLU()
            elif kind == 'layernorm':
                m = torch.nn.LayerNorm(spec)
            elif kind == 'batchnorm':
                m = torch.nn.BatchNorm2d(spec)
            elif kind == 'embedding':
                m = torch.nn.Embedding(*spec)
            mods.append((n, m))
        from collections import OrderedDict
        model = torch.nn.Sequential(OrderedDict(mods))
        k = 0
        for (n, kind, spec, trainable), (_, m) in zip(MODELS[name], mods):
            for pn, p in list(m.named_parameters()):
                H.set_param(p, H.sym_tensor(eng, f'p_{n}_{pn}', tuple(p.shape), gdt if kind in ('linear', 'conv') else None))
                if not trainable and pn == 'weight':
                    p.requires_grad = False
            for bn, b in list(m.named_buffers()):
                H.set_param(b, H.sym_tensor(eng, f'b_{n}_{bn}', tuple(b.shape)))
        return model, mods

    def registered(self, name):
        skip = SKIP.get(name, [])
        return [(n, spec) for n, kind, spec, tr in MODELS[name]
                if kind in ('linear', 'conv') and tr and not any(s in n for s in skip)]

    def make_pre(self, cfg, eng, model, clip):
        import kfac.preconditioner as P
        from kfac.enums import ComputeMethod
        lam = eng.fresh_real('damping')
        eng.assume(lam > 0, check=False)
        lr = eng.fresh_real('lr')
        eng.assume(lr >= 0, check=False)
        kl = None
        if clip:
            kl = eng.fresh_real('kl_clip')
            eng.assume(kl > 0, check=False)
        method = cfg.get('method', 'eigen')
        return P.KFACPreconditioner(
            model, damping=lam, lr=lr, kl_clip=kl, skip_layers=SKIP.get(cfg['model'], []),
            accumulation_steps=cfg.get('acc', 1),
            compute_method=ComputeMethod.INVERSE if method == 'inverse' else ComputeMethod.EIGEN,
            compute_eigenvalue_outer_product=(method == 'eigen-prediv'))

    def run(self, cfg, eng):
        gdt = H.dtype_of(cfg.get('gdt', 'fp32'))
        model, mods = self.build(eng, cfg['model'], gdt)
        byname = dict(mods)
        reg = self.registered(cfg['model'])
        pre = self.make_pre(cfg, eng, model, cfg.get('clip', False))
        got_reg = sorted(n for n, _ in pre._layers.values())
        eng.oblige('registered-layers-as-expected', got_reg == sorted(n for n, _ in reg), info={'got': str(got_reg)})
        if cfg['harness'] == 'eval':
            return self.eval_pass(cfg, eng, pre, byname, reg)
        # one training micro-batch through the hooks of the registered layers
        hook_ok = True
        for n, spec in reg:
            x, gy = kfh.sym_batch(eng, f'_{n}', spec, 2 if spec[0] == 'linear' else 1)
            xt, gt, r1, r2 = kfh.feed(byname[n], x, gy)
            hook_ok = hook_ok and r1 is None and r2 is None and H.version(xt) == 0 and H.version(gt) == 0
            hook_ok = hook_ok and H.vals(xt) == x if not H.SHIM else hook_ok
        eng.oblige('hooks-return-None-and-do-not-write-to-their-arguments', hook_ok)
        # gradients on every parameter (registered or not)
        snap = {}
        for n, m in mods:
            for pn, p in m.named_parameters():
                if p.requires_grad:
                    g = H.sym_tensor(eng, f'g_{n}_{pn}', tuple(p.shape), None if not H.SHIM else p.dtype)
                    if not H.SHIM:
                        g = g.to(p.dtype)
                    p.grad = g
                snap[(n, pn)] = (p, H.version(p), H.vals(p), p.grad, None if p.grad is None else H.version(p.grad),
                                 None if p.grad is None else H.vals(p.grad),
                                 None if p.grad is None else (tuple(p.grad.shape), H.dtype_tag(p.grad), str(p.grad.device),
                                                             H.is_contig(p.grad)))
            for bn, b in m.named_buffers():
                snap[(n, 'buf:' + bn)] = (b, H.version(b), H.vals(b), None, None, None, None)
        try:
            pre.step()
        except Exception as e:  # noqa: BLE001
            eng.oblige('no-exception-from-step', False, info={'error': f'{type(e).__name__}: {e}'[:200]})
            return
        eng.witness('step done')
        regnames = {n for n, _ in reg}
        for n, m in mods:
            items = list(m.named_parameters()) + [('buf:' + bn, b) for bn, b in m.named_buffers()]
            for pn, p in items:
                p0, ver, vals, g0, gver, gvals, gmeta = snap[(n, pn)]
                eng.oblige('parameters-and-buffers-are-the-same-objects', p is p0, info={'param': f'{n}.{pn}'})
                eng.oblige('parameters-and-buffers-not-written', H.version(p) == ver, info={'param': f'{n}.{pn}'})
                eng.oblige_all_eq('parameter-and-buffer-values-unchanged', O.pairs(H.vals(p), vals), info={'param': f'{n}.{pn}'})
                if pn.startswith('buf:'):
                    continue
                if n not in regnames:
                    eng.oblige('unregistered-gradient-is-the-same-untouched-object',
                               p.grad is g0 and (g0 is None or H.version(g0) == gver), info={'param': f'{n}.{pn}'})
                    if g0 is not None and p.grad is not None:
                        eng.oblige_all_eq('unregistered-gradient-values-unchanged', O.pairs(H.vals(p.grad), gvals))
                else:
                    g = p.grad
                    ok = g is not None and (tuple(g.shape), H.dtype_tag(g), str(g.device), H.is_contig(g)) == gmeta
                    eng.oblige('registered-gradient-keeps-shape-dtype-device-contiguity', ok,
                               info={'param': f'{n}.{pn}', 'before': str(gmeta),
                                     'after': None if g is None else str((tuple(g.shape), H.dtype_tag(g), str(g.device), H.is_contig(g)))})

    def eval_pass(self, cfg, eng, pre, byname, reg):
        """train micro-batch, then eval-mode forward/backward: nothing observable changes."""
        for n, spec in reg:
            x, gy = kfh.sym_batch(eng, f'_{n}', spec, 1)
            kfh.feed(byname[n], x, gy)

        def observe():
            sd = pre.state_dict()
            mu = pre.memory_usage()
            lay = {n: {k: (None if v is None else H.vals(v)) for k, v in d.items()} for n, d in sd['layers'].items()}
            return sd['steps'], lay, dict(mu)
        before = observe()
        for n, spec in reg:
            byname[n].eval()
            x, gy = kfh.sym_batch(eng, f'_e{n}', spec, 1)
            xt, gt, r1, r2 = kfh.feed(byname[n], x, gy)
            eng.oblige('eval-hooks-return-None', r1 is None and r2 is None)
            byname[n].train()
        after = observe()
        eng.witness('eval pass done')
        eng.oblige('eval-pass-leaves-step-count-and-memory-usage-unchanged', before[0] == after[0] and before[2] == after[2],
                   info={'before': str(before[2]), 'after': str(after[2])})
        pairs = []
        same_struct = True
        for n in before[1]:
            for k in ('A', 'G'):
                b, a = before[1][n][k], after[1][n][k]
                if (b is None) != (a is None):
                    same_struct = False
                elif b is not None:
                    pairs += O.pairs(a, b)
        eng.oblige('eval-pass-leaves-factor-presence-unchanged', same_struct)
        eng.oblige_all_eq('eval-pass-leaves-factors-unchanged', pairs)
        if cfg.get('acc', 1) == 2:
            # the eval pass happened in the middle of an accumulation window:
            # the second training micro-batch must complete it exactly as if
            # the eval pass had not happened
            for n, spec in reg:
                x, gy = kfh.sym_batch(eng, f'_2{n}', spec, 1)
                kfh.feed(byname[n], x, gy)
            end = observe()
            done = all(end[1][n][k] is not None for n in end[1] for k in ('A', 'G')) and \
                end[2].get('a_batch', 0) == 0 and end[2].get('g_batch', 0) == 0
            eng.oblige('accumulation-window-completes-after-an-interleaved-eval-pass', done,
                       info={'memory': str(end[2])})


PROP = C10()
