"""C03 -- all ranks issue matching collectives and no rank ever stalls.

The real preconditioner runs a history of operations on W simulated ranks
(value-agnostic tensors; symbolic factor / inverse update intervals and
starting step count, so every feasible gating pattern is a path).  The
simulator checks at match time: same kind, shape, dtype, root on every member;
root in the group; caller in the group; identical new_group sequences; it
reports stalls.  The extracted traces are then put under a symbolic scheduler
(IDL quick, BMC thorough) so the verdict covers all interleavings.
"""

from __future__ import annotations

import itertools

from vkit import loader, sched
from vkit.framework import Prop
from vkit.props import hist

OPS = ['train', 'eval', 'sd', 'sd0', 'mem', 'mem0', 'load', 'load-noinv', 'reset']


def divisors(n):
    return [k for k in range(1, n + 1) if n % k == 0]


class C03(Prop):
    id = 'C03'
    title = 'All ranks issue matching collectives and no rank ever stalls'
    assumptions = [
        'torch.distributed by the simulator contract: collectives match per group in issue order (gloo/NCCL rule); an asynchronous '
        'operation completes when all members have issued it; new_group is a blocking world collective',
        'tensor values are irrelevant to the communication structure (float data); the per-rank event sequences depend only on '
        '(configuration, rank, path) because the code never polls futures or reads clocks -- re-checked by an AST scan on every run',
        'GPT-NeoX group creation is covered by C12',
    ]
    stubs = ['torch.distributed -> simulator', 'torch.save/load -> in-memory file system']
    replay_random_tries = 0   # structural failures do not depend on the data
    replay_budget = 5
    trusted_base = ['z3 5.1.0', 'vkit.symex', 'simulator (vkit/shim/torch/distributed)', 'vkit/sched.py (IDL / BMC encodings)']
    task_timeout = {'quick': 300, 'thorough': 2400}

    def bounds(self, tier):
        return {'world': [2, 3, 4] if tier == 'quick' else [2, 3, 4, 6], 'history': 'train followed by 3 (4) operations from ' + str(OPS),
                'intervals': 'symbolic Int >= 1 (factor and inverse), symbolic starting step; also callable (uninterpreted) intervals',
                'strategies': 'every divisor k of W', 'options': 'hook/no-hook, accumulation 1..2, bucket cap 0/tiny/huge, symmetric on/off, '
                'eigen / prediv / inverse, colocate on/off', 'schedules': 'IDL over all interleavings (quick); BMC with symbolic scheduler up to 64 events (thorough)',
                'baton_policies': ['rr', 'reverse', 'high', 'random+preempt']}

    def configs(self, tier, seed):
        out = []
        n = 3 if tier == 'quick' else 4
        seqs = list(itertools.product(OPS, repeat=n))
        stride = 41 if tier == 'quick' else 173
        picked = [list(s) for s in seqs[seed % stride::stride]]
        # always include the checkpoint / subset patterns
        picked += [['load', 'train', 'train'], ['sd0', 'load', 'train'], ['mem0', 'train', 'load-noinv'],
                   ['train', 'load', 'mem'], ['eval', 'train', 'sd']]
        worlds = [2, 3, 4] if tier == 'quick' else [2, 3, 4, 6]
        i = 0
        for w in worlds:
            for k in divisors(w):
                for s in picked:
                    i += 1
                    if tier == 'quick' and (i % 3) and s not in picked[-5:]:
                        continue
                    method = ['eigen', 'eigen-prediv', 'inverse'][i % 3]
                    col = bool(i % 2) or method == 'eigen-prediv'
                    out.append({'harness': 'history', 'world': w, 'k': k, 'ops': ['train'] + s, 'method': method, 'colocate': col,
                                'cap': ['zero', 'huge', 'tiny'][i % 3], 'symmetric': bool((i // 2) % 2), 'hook': bool(i % 4),
                                'acc': 1 + (i % 2), 'model': ['two', 'four', 'conv'][i % 3],
                                'intervals': 'callable' if i % 7 == 0 else 'sym',
                                'policy': ['rr', 'reverse', 'high', 'random'][i % 4], 'preempt': i % 4 == 3, 'seed': i,
                                'bmc': tier == 'thorough' and i % 5 == 0})
        return out

    def run(self, cfg, eng):
        wr = hist.run_history(cfg, eng)
        bad = [v for v in wr.violations]
        eng.oblige('no-mismatch-no-foreign-group-no-stall', not bad, info={'violations': str(bad)[:500], 'k': cfg['k'], 'world': cfg['world']})
        eng.oblige('no-rank-raises', not wr.errors, info={'errors': {str(k): f'{type(v).__name__}: {v}'[:160] for k, v in wr.errors.items()}})
        if bad or wr.errors:
            return
        eng.witness('history complete')
        if wr.sim is None:
            return
        sim = wr.sim
        calls = [sim.newgroup_calls[r] for r in range(cfg['world'])]
        eng.oblige('groups-created-with-same-members-in-same-order', all(c == calls[0] for c in calls))
        eng.oblige('every-started-operation-completes', all(op.fut.done() for op in sim.issued_ops))
        seqs, members = sched.traces(wr.events, cfg['world'])
        probs = sched.structural(seqs, members)
        eng.oblige('every-member-issues-every-collective-once', not probs, info={'problems': str(probs[:3])})
        if probs:
            return
        res, secs, n = sched.idl(seqs, members)
        eng.stats.queries += 1
        eng.stats.solver_s += secs
        eng.oblige('a-complete-execution-exists-for-the-wait-for-relation (IDL sat => every schedule completes)', res == 'sat',
                   info={'idl': res, 'constraints': n})
        if cfg.get('bmc'):
            res, secs = sched.bmc(seqs, members)
            eng.stats.queries += 1
            eng.stats.solver_s += secs
            if res != 'skipped':
                eng.oblige('no-reachable-stall-under-a-symbolic-scheduler (BMC)', res == 'unsat', info={'bmc': res})

    def extra(self, tier, seed, results):
        bad = sched.ast_scan(loader.repo_path())
        rep = {'ast_scan_findings': bad}
        out = {'report': rep, 'obligations': 1, 'discharged': 0 if bad else 1, 'failures': [], 'inconclusive': []}
        if bad:
            out['inconclusive'].append('source polls futures / reads clocks: schedule independence of traces not established: ' + str(bad[:3]))
        return out


PROP = C03()
