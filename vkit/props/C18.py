"""C18 -- GPT-NeoX checkpoints gather and restore every layer factor.

The GPT-NeoX harness of neox.py plus all_gather_object / new_group(backend=
'gloo') / barrier and the in-memory file system.  After j training steps every
rank calls state_dict(); the state goes into a freshly constructed
preconditioner on every rank via load_state_dict(); training continues.
Obligations: the saved state holds, on every rank (or in one file per layer),
the factors of the unsharded reference; after loading, the gathering (primary)
ranks hold them; all ranks issue the same collectives; the resumed run equals
the uninterrupted reference.
"""

from __future__ import annotations

from vkit import harness as H
from vkit import kfh
from vkit import oracle as O
from vkit import symex
from vkit.framework import Prop
from vkit.props import neox
from vkit.props.C11 import MODELS
from vkit.symex import And


class C18(Prop):
    id = 'C18'
    title = 'GPT-NeoX checkpoints gather and restore every layer factor'
    assumptions = ['as C11 (DeepSpeed/Megatron stand-ins, exact reals, simulator); torch.save/load and os.path/os.makedirs by an '
                   'in-memory file system shared by the simulated ranks; kl_clip=None in the resumed run (the clip scale under model '
                   'parallelism is the recorded C11 finding)']
    stubs = ['deepspeed -> vkit/shim_ds', 'torch.distributed -> simulator', 'os / torch.save / torch.load -> in-memory file system']
    trusted_base = ['z3 5.1.0', 'vkit.symex', 'symtorch shim', 'kfac_ref']
    replay_tol = 5e-3
    replay_budget = 3
    task_timeout = {'quick': 400, 'thorough': 2400}

    def bounds(self, tier):
        return {'grids (data x model)': [(1, 1), (2, 1), (1, 2), (2, 2)], 'layers': list(MODELS), 'checkpoint_after_steps': [1, 2],
                'modes': ['in-memory state', 'factor_checkpoint_dir'], 'compute_inverses': [True, False]}

    def configs(self, tier, seed):
        out = []
        i = 0
        for (d, m, pp) in [(1, 1, 1), (2, 1, 1), (1, 2, 1), (2, 2, 1), (1, 1, 2), (2, 1, 2), (1, 1, 3)]:
            for name in ('col', 'row', 'row-nb', 'col-row'):
                if not neox.divisible(MODELS[name], m):
                    continue
                if pp > 1 and name not in ('col', 'col-row'):
                    continue
                for mode in ('memory', 'dir'):
                    for ci in (True, False):
                        i += 1
                        if tier == 'quick' and (d, m) == (2, 2) and name == 'col-row':
                            continue
                        if m > 1 and not (d == 1 and name in ('row', 'col') and mode == 'memory' and ci):
                            # region of the recorded finding (replicated factor restored on one peer only): two witnesses
                            continue
                        out.append({'harness': 'checkpoint', 'data': d, 'model': m, 'pipe': pp, 'layers': name, 'mode': mode,
                                    'compute_inverses': ci, 'before': 1 + i % 2})
        return out

    def run(self, cfg, eng):
        import kfac.gpt_neox.preconditioner as GP
        D, M, P = cfg['data'], cfg['model'], cfg.get('pipe', 1)
        w = D * M * P
        specs = MODELS[cfg['layers']]
        full = [neox.unsharded(s) for s in specs]
        nbefore = cfg['before']
        nsteps = nbefore + 1
        sym = eng.concrete is None
        lam, alpha, lr = eng.fresh_real('damping'), eng.fresh_real('decay'), eng.fresh_real('lr')
        if sym:
            eng.assume(And(lam > 0, alpha > 0, alpha <= 1, lr >= 0), check=False)
        elif not (lam > 0 and 0 < alpha <= 1 and lr >= 0):
            raise symex.PathAbort('hp')
        data = {(pi, di, s, li): kfh.sym_batch(eng, f'_{pi}_{di}_{s}_{li}', fs, 1)
                for pi in range(P) for di in range(D) for s in range(nsteps) for li, fs in enumerate(full)}
        grads = {(pi, s, li): kfh.sym_grads(eng, f'_{pi}_{s}_{li}', fs) for pi in range(P) for s in range(nsteps) for li, fs in enumerate(full)}
        ckdir = 'ckpt_dir' if cfg['mode'] == 'dir' else None
        if not H.SHIM and ckdir:
            import tempfile
            ckdir = tempfile.mkdtemp(prefix='vk_c18_')

        def rank(r):
            pi, di, mi = neox.coords(r, D, M)

            def make():
                model, mods, topo = neox.build_rank(specs, r, D, M, P)
                import torch.distributed as dist
                dp = mp = None
                # process groups are created once per process by DeepSpeed; re-use them for the fresh object
                if 'groups' not in state:
                    state['groups'] = neox.make_groups(topo, r, w)
                dp, mp = state['groups']
                import warnings
                with warnings.catch_warnings():
                    warnings.simplefilter('ignore')
                    pre = GP.GPTNeoXKFACPreconditioner(
                        model, damping=lam, factor_decay=alpha, lr=lr, kl_clip=None, allreduce_bucket_cap_mb=0.0,
                        data_parallel_group=dp, model_parallel_group=mp, pipeline_parallel_group=None,
                        factor_checkpoint_dir=ckdir)
                return pre, mods
            state = {}
            pre, mods = make()

            def train(s):
                for li, (spec, mod) in enumerate(zip(specs, mods)):
                    x, gy = neox.local_batch(spec, *data[(pi, di, s, li)], mi, M)
                    kfh.feed(mod, x, gy)
                for li, (spec, mod) in enumerate(zip(specs, mods)):
                    dw, db = neox.local_grads(spec, *grads[(pi, s, li)], mi, M)
                    mod.weight.grad = H.from_list(dw, None if H.SHIM else mod.weight.dtype)
                    if spec[3]:
                        mod.bias.grad = H.from_list(db, None if H.SHIM else mod.bias.dtype)
                pre.step()
                fin = []
                for spec, mod in zip(specs, mods):
                    fin.append(kfh.get_combined(mod, ('linear', mod.weight.shape[1], mod.weight.shape[0], spec[3])))
                return fin
            out = {'grads': []}
            for s in range(nbefore):
                out['grads'].append(train(s))
            sd = pre.state_dict()
            out['saved_keys'] = sorted(sd.keys())
            out['saved_layers'] = None if 'layers' not in sd else {
                n: (H.vals(v['A']), H.vals(v['G'])) for n, v in sd['layers'].items()}
            out['saved_steps'] = sd['steps']
            pre, mods = make()
            if w > 1:
                import torch.distributed as dist_
                dist_.barrier()   # harness-level sync: every rank has finished saving before the files are listed
            if ckdir is not None:
                files = {}
                if H.SHIM:
                    import torch.serialization as ser
                    for path, obj in ser.FS.items():
                        if path.startswith(ckdir + '/'):
                            files[path[len(ckdir) + 1:]] = (H.vals(obj['A']), H.vals(obj['G']))
                else:
                    import os
                    import torch
                    for fn in os.listdir(ckdir):
                        obj = torch.load(os.path.join(ckdir, fn))
                        files[fn] = (H.vals(obj['A']), H.vals(obj['G']))
                out['files'] = files
            err = None
            try:
                pre.load_state_dict(sd, compute_inverses=cfg['compute_inverses'])
            except Exception as e:  # noqa: BLE001
                err = f'{type(e).__name__}: {e}'[:200]
            out['load_error'] = err
            out['loaded_steps'] = pre.steps
            held = {}
            for li, mod in enumerate(mods):
                name, layer = pre._layers[mod]
                held[li] = {'primary': layer.primary_rank == r, 'A': H.vals(layer.a_factor), 'G': H.vals(layer.g_factor),
                            'has_second_order': layer.qa is not None and layer.qg is not None}
            out['held'] = held
            if err is None:
                out['grads'].append(train(nbefore))
            return out

        import os
        os.environ['VK_FORCE_DIST'] = '1'
        try:
            wr = kfh.run_world(w, rank, eng, policy='rr')
        finally:
            os.environ.pop('VK_FORCE_DIST', None)
        eng.oblige('all-ranks-take-part-in-the-same-collectives', not wr.violations, info={'violations': str(wr.violations)[:400]})
        eng.oblige('no-rank-raises', not wr.errors and all(wr.results[r]['load_error'] is None for r in wr.results),
                   info={'errors': {str(k): f'{type(v).__name__}: {v}'[:200] for k, v in wr.errors.items()},
                         'load': str([wr.results[r]['load_error'] for r in wr.results if wr.results[r]['load_error']])[:200]})
        if wr.violations or wr.errors or len(wr.results) < w or any(wr.results[r]['load_error'] for r in wr.results):
            return
        eng.witness('checkpoint round trip executed')
        L = len(specs)
        names = [neox.layer_name(pi, li, L) for pi in range(P) for li in range(L)]
        refs = [kfh.KfacRef(full, 'eigen', prediv=False) for _ in range(P)]
        for s in range(nsteps):
            for pi in range(P):
                ref = refs[pi]
                for li, fs in enumerate(full):
                    ref.update_factors(li, [data[(pi, di, s, li)][0] for di in range(D)], [data[(pi, di, s, li)][1] for di in range(D)], alpha)
                    ref.refresh(li, lam)
            if s == nbefore - 1:
                saved_ref = {neox.layer_name(pi, li, L): (refs[pi].A[li], refs[pi].G[li]) for pi in range(P) for li in range(L)}
                for r in range(w):
                    o = wr.results[r]
                    rp = neox.coords(r, D, M)[0]
                    eng.oblige('saved-step-count', o['saved_steps'] == nbefore and o['loaded_steps'] == nbefore)
                    if cfg['mode'] == 'memory':
                        eng.oblige('state-on-every-rank-lists-every-layer', o['saved_layers'] is not None
                                   and sorted(o['saved_layers']) == sorted(names),
                                   info={'rank': r, 'layers': str(o['saved_layers'] and sorted(o['saved_layers'])), 'want': str(sorted(names))})
                        if o['saved_layers'] is None or sorted(o['saved_layers']) != sorted(names):
                            return
                        for n in names:
                            a, g = o['saved_layers'][n]
                            eng.oblige_all_eq('saved-factors-are-those-held-by-the-inverse-worker (= unsharded reference)',
                                              O.pairs(a, saved_ref[n][0]) + O.pairs(g, saved_ref[n][1]), info={'rank': r, 'layer': n})
                    else:
                        eng.oblige('directory-mode-state-has-no-layers-and-one-file-per-layer',
                                   o['saved_layers'] is None and sorted(o['files']) == sorted(names), info={'files': str(sorted(o['files']))})
                        if sorted(o['files']) != sorted(names):
                            return
                        for n in names:
                            a, g = o['files'][n]
                            eng.oblige_all_eq('per-layer-file-holds-the-layer-factors', O.pairs(a, saved_ref[n][0]) + O.pairs(g, saved_ref[n][1]))
                    for li in range(L):
                        h = o['held'][li]
                        n = neox.layer_name(rp, li, L)
                        if h['primary']:
                            eng.oblige('factors-restored-on-the-gathering-rank', h['A'] is not None and h['G'] is not None, info={'rank': r})
                            if h['A'] is not None and h['G'] is not None:
                                eng.oblige_all_eq('restored-factors-equal-saved-factors',
                                                  O.pairs(h['A'], saved_ref[n][0]) + O.pairs(h['G'], saved_ref[n][1]))
                            eng.oblige('second-order-data-recomputed-iff-requested', h['has_second_order'] == cfg['compute_inverses'],
                                       info={'rank': r, 'has': h['has_second_order']})
            for pi in range(P):
                ref = refs[pi]
                Ds = [kfh.combined(fs, *grads[(pi, s, li)]) for li, fs in enumerate(full)]
                Vs = [ref.precondition(li, Ds[li], lam) for li in range(len(full))]
                for di in range(D):
                    for mi in range(M):
                        r = neox.rank_of(pi, di, mi, D, M)
                        got = wr.results[r]['grads'][s]
                        pairs = []
                        for li, spec in enumerate(specs):
                            V = Vs[li]
                            nb = 1 if spec[3] else 0
                            if spec[0] == 'col':
                                want = neox.shard_rows(V, mi, M)
                            else:
                                wcols = neox.shard_cols([row[:len(row) - nb] for row in V], mi, M)
                                want = [wr_ + ([row[-1]] if nb else []) for wr_, row in zip(wcols, V)]
                            pairs += O.pairs(got[li], want)
                        eng.oblige_all_eq('resumed-run-equals-the-uninterrupted-reference' if s >= nbefore else
                                          'run-before-the-checkpoint-equals-the-reference', pairs, info={'rank': r, 'step': s, 'model': M})


PROP = C18()
