"""GPT-NeoX harness shared by C11 and C18.

A `data x model` (x pipe) grid of simulated ranks; DeepSpeed / Megatron are
the stand-ins of vkit/shim_ds and the class-name mocks of testing/gpt_neox.py
(ColumnParallelLinear / RowParallelLinear as nn.Linear subclasses holding the
local shard).  Each rank holds its shard of every layer and is fed the
matching shard of symbolic activations / output-gradients through the
registered hooks; the reference is the unsharded layer in kfac_ref.

layer spec: (kind, in, out, bias) with kind in {'col', 'row'}:
  col (ColumnParallelLinear, parallelism 'output'): weight (out/m, in), bias (out/m);
      input replicated over model peers, output-gradient sharded on the last dim.
  row (RowParallelLinear, parallelism 'input'): weight (out, in/m), bias (out) replicated;
      input sharded on the last dim, output-gradient replicated.
"""

from __future__ import annotations

import torch

from vkit import harness as H
from vkit import kfh
from vkit import oracle as O
from vkit import symex


def rank_of(p, d, m, D, M):
    return p * D * M + d * M + m


def coords(r, D, M):
    return r // (D * M), (r // M) % D, r % M


class ColumnParallelLinear(torch.nn.Linear):
    pass


class RowParallelLinear(torch.nn.Linear):
    pass


def shard_cols(mat, mi, M):
    """columns block mi of M (nested list rows x cols)"""
    n = len(mat[0]) // M
    return [row[mi * n:(mi + 1) * n] for row in mat]


def shard_rows(mat, mi, M):
    n = len(mat) // M
    return mat[mi * n:(mi + 1) * n]


def shard_vec(v, mi, M):
    n = len(v) // M
    return v[mi * n:(mi + 1) * n]


def divisible(specs, M):
    """column-parallel layers shard the output features, row-parallel layers the input features"""
    return all((s[2] if s[0] == 'col' else s[1]) % M == 0 for s in specs)


def layer_name(pi, li, nlayers):
    """qualified names are global to the pipeline: stage pi holds layers pi*L .. pi*L+L-1"""
    return str(pi * nlayers + li)


def build_rank(specs, r, D, M, P=1):
    """-> (PipelineModule, [modules]) for this rank's stage (every stage holds its own copy of the
    layer list, under stage-specific names)"""
    from deepspeed.pipe import PipelineModule
    from deepspeed.runtime.pipe.topology import PipeModelDataParallelTopology
    mods = []
    for (kind, nin, nout, bias) in specs:
        if kind == 'col':
            mods.append(ColumnParallelLinear(nin, nout // M, bias=bias))
        else:
            mods.append(RowParallelLinear(nin // M, nout, bias=bias))
    topo = PipeModelDataParallelTopology(num_pp=P, num_mp=M, num_dp=D)
    model = PipelineModule(layers=[], num_stages=P, topology=topo)
    pi = r // (D * M)
    for li, mod in enumerate(mods):
        model.add_module(layer_name(pi, li, len(mods)), mod)
    return model, mods, topo


def make_groups(topo, r, w):
    import torch.distributed as dist
    dp = mp = None
    for ranks in topo.get_axis_comm_lists('data'):
        g = dist.new_group(ranks) if w > 1 else None
        if r in ranks:
            dp = g
    for ranks in topo.get_axis_comm_lists('model'):
        g = dist.new_group(ranks) if w > 1 else None
        if r in ranks:
            mp = g
    return dp, mp


def local_batch(spec, x_full, gy_full, mi, M):
    """shard of one data-parallel replica's (x, gy) for model coordinate mi"""
    kind = spec[0]
    if kind == 'col':
        return x_full, [shard_vec(row, mi, M) for row in gy_full]
    return [shard_vec(row, mi, M) for row in x_full], gy_full


def local_grads(spec, dw_full, db_full, mi, M):
    kind = spec[0]
    if kind == 'col':
        return shard_rows(dw_full, mi, M), (shard_vec(db_full, mi, M) if db_full is not None else None)
    return shard_cols(dw_full, mi, M), db_full


def unsharded(spec):
    return ('linear', spec[1], spec[2], spec[3])


def assemble(spec, shards, M):
    """per-model-coordinate combined gradients (rows x cols incl. bias col) -> full combined matrix.
    shards: list over mi of combined (weight|bias) nested lists."""
    kind, nin, nout, bias = spec
    if kind == 'col':
        out = []
        for mi in range(M):
            out.extend(shards[mi])
        return out
    rows = []
    for o in range(nout):
        row = []
        for mi in range(M):
            row.extend(shards[mi][o][:nin // M])
        if bias:
            row.append(shards[0][o][-1])
        rows.append(row)
    return rows
