"""C15 -- layer helpers keep factors, gradients and weights in one layout.

For every enumerated geometry the real helpers run on symbolic inputs; the
oracle is an explicit index-formula im2col (`conv_ref`) and the specification
of the convolution / linear backward pass (validated against the real
autograd in validate_shim).  All obligations are linear / quadratic identities
in the symbols, decided by z3.
"""

from __future__ import annotations

import itertools

from vkit import harness as H
from vkit import kfh
from vkit import oracle as O
from vkit.framework import Prop


def conv_geoms(tier):
    out = []
    ks = [(1, 1), (2, 2), (1, 2), (2, 1), (3, 2), (1, 3)]
    ss = [(1, 1), (2, 1), (1, 2), (2, 2)]
    ps = [(0, 0), (1, 1), (0, 1), (1, 0)]
    sizes = [(3, 3), (4, 3), (3, 5)] if tier == 'quick' else [(3, 3), (4, 3), (3, 5), (5, 4), (5, 5)]
    chans = [(1, 1), (2, 1), (1, 2)] if tier == 'quick' else [(1, 1), (2, 1), (1, 2), (2, 2)]
    n = 0
    for k, s, p, hw in itertools.product(ks, ss, ps, sizes):
        if hw[0] + 2 * p[0] < k[0] or hw[1] + 2 * p[1] < k[1]:
            continue
        n += 1
        if tier == 'quick' and n % 4 != 1:
            continue
        cin, cout = chans[n % len(chans)]
        out.append(('conv', cin, cout, k, s, p, bool(n % 2), hw[0], hw[1]))
    return out


class C15(Prop):
    id = 'C15'
    title = 'Layer helpers keep factors, gradients and weights in one consistent layout'
    assumptions = ['A-real', 'dilation 1, groups 1, zero padding (the supported configuration)',
                   'the backward pass of conv2d / linear is the textbook sum over samples and positions of outer(gy row, patch row); '
                   'this specification is validated against the real autograd by validate_shim']
    stubs: list = []
    trusted_base = ['z3 5.1.0', 'vkit.symex', 'symtorch shim (unfold / pad / view semantics validated against torch)',
                    'conv_ref: explicit index-formula im2col in vkit/oracle.py']

    def bounds(self, tier):
        g = conv_geoms(tier)
        return {'conv_geometries': len(g), 'kernels': '1..3 x 1..3', 'strides': '1..2 x 1..2', 'paddings': '0..1 x 0..1',
                'input_sizes': 'H, W <= 5 including sizes not divisible by the stride', 'channels': '<= 2', 'batch': '1..2',
                'linear': 'inputs of rank 2..4, in/out <= 3'}

    def configs(self, tier, seed):
        out = []
        for i, g in enumerate(conv_geoms(tier)):
            out.append({'harness': 'conv', 'spec': [list(x) if isinstance(x, tuple) else x for x in g], 'batch': 1 + i % 2})
        for bias in (True, False):
            for extra in ([], [2], [2, 2]):
                out.append({'harness': 'linear', 'spec': ['linear', 3 - len(extra), 2, bias], 'extra': extra, 'batch': 2})
        return out

    def run(self, cfg, eng):
        spec = tuple(tuple(x) if isinstance(x, list) else x for x in cfg['spec'])
        import kfac.layers.modules as M
        mod = kfh.build_layer(spec)
        helper = M.Conv2dModuleHelper(mod) if spec[0] == 'conv' else M.LinearModuleHelper(mod)
        B = cfg['batch']
        extra = tuple(cfg.get('extra', ()))
        x, gy = kfh.sym_batch(eng, '', spec, B, extra)
        na, ng = kfh.a_dim(spec), kfh.g_dim(spec)
        bias = kfh.has_bias(spec)

        # advertised shapes
        eng.oblige('advertised-factor-shapes', tuple(helper.a_factor_shape) == (na, na)
                   and tuple(helper.g_factor_shape) == (ng, ng),
                   info={'a': str(helper.a_factor_shape), 'g': str(helper.g_factor_shape)})
        A = helper.get_a_factor(H.from_list(x))
        G = helper.get_g_factor(H.from_list(gy))
        eng.oblige('factor-shapes-equal-advertised-shapes',
                   tuple(A.shape) == tuple(helper.a_factor_shape) and tuple(G.shape) == tuple(helper.g_factor_shape),
                   info={'A': str(tuple(A.shape)), 'G': str(tuple(G.shape))})
        eng.witness('factors computed')

        # reference rows (independent of the code)
        if spec[0] == 'conv':
            (kh, kw), (sh, sw), (ph, pw) = spec[3], spec[4], spec[5]
            rows, oh, ow = O.im2col(x, kh, kw, sh, sw, ph, pw)
            grows = O.conv_gy_rows(gy)
            sp = oh * ow
            if hasattr(helper, '_extract_patches'):
                pt = helper._extract_patches(H.from_list(x))
                eng.oblige('patch-tensor-shape', tuple(pt.shape) == (B, oh, ow, len(rows[0])),
                           info={'got': str(tuple(pt.shape)), 'want': str((B, oh, ow, len(rows[0])))})
                if tuple(pt.shape) == (B, oh, ow, len(rows[0])):
                    flat = H.vals(pt.reshape(-1, pt.size(3)))
                    eng.oblige_all_eq('patch-extraction-agrees-with-the-convolution-unfolding', O.pairs(flat, rows))
        else:
            rows = kfh._rows2d(x, spec[1])
            grows = kfh._rows2d(gy, spec[2])
            sp = 1
        aug = [r + [kfh.ONE] for r in rows] if bias else rows
        a_ref = O.second_moment([[v / sp for v in r] for r in aug])
        g_ref = O.second_moment([[v / sp for v in r] for r in grows])
        if tuple(A.shape) == (na, na):
            eng.oblige_all_eq('A-factor-is-the-second-moment-of-the-unfolded-augmented-inputs', O.pairs(H.vals(A), a_ref))
        if tuple(G.shape) == (ng, ng):
            eng.oblige_all_eq('G-factor-is-the-second-moment-of-the-output-gradients', O.pairs(H.vals(G), g_ref))

        # gradient layout: weight.grad := backward pass by specification
        wgrad = O.outer_sum(grows, rows)          # out x (C*kh*kw)
        bgrad = [sum((r[o] for r in grows), 0) for o in range(ng)]
        ws, _ = kfh.grad_shapes(spec)
        mod.weight.grad = H.from_list(wgrad).reshape(*ws) if H.SHIM else \
            H.from_list(wgrad, mod.weight.dtype).reshape(*ws)
        if bias:
            mod.bias.grad = H.from_list(bgrad, None if H.SHIM else mod.bias.dtype)
        got = helper.get_grad()
        want = O.outer_sum(grows, aug)            # sum_r outer(gy_r, [patch_r | 1])
        eng.oblige('combined-gradient-shape', tuple(got.shape) == (ng, na))
        if tuple(got.shape) == (ng, na):
            eng.oblige_all_eq('combined-gradient-is-sum-of-outer(gy-row,[patch-row|1])', O.pairs(H.vals(got), want))

        # set/get round trips
        Mx = H.sym_list(eng, 'M', (ng, na))
        helper.set_grad(H.from_list(Mx, None if H.SHIM else mod.weight.dtype))
        back = helper.get_grad()
        eng.oblige_all_eq('set_grad-then-get_grad-is-the-identity', O.pairs(H.vals(back), Mx))
        eng.oblige('written-gradients-are-contiguous-with-parameter-shapes',
                   H.is_contig(mod.weight.grad) and tuple(mod.weight.grad.shape) == tuple(mod.weight.shape)
                   and (not bias or (H.is_contig(mod.bias.grad) and tuple(mod.bias.grad.shape) == tuple(mod.bias.shape))))
        w_before = H.vals(mod.weight.grad)
        b_before = H.vals(mod.bias.grad) if bias else None
        helper.set_grad(helper.get_grad())
        eng.oblige_all_eq('set_grad(get_grad())-changes-nothing', O.pairs(H.vals(mod.weight.grad), w_before) +
                          (O.pairs(H.vals(mod.bias.grad), b_before) if bias else []))
        # weight / bias split: columns 0..-2 are the weight, last column the bias
        eng.oblige_all_eq('weight-and-bias-split-of-the-combined-matrix',
                          O.pairs([H.flat(r) for r in H.vals(mod.weight.grad)],
                                  [r[:-1] if bias else r for r in Mx]) +
                          (O.pairs(H.vals(mod.bias.grad), [r[-1] for r in Mx]) if bias else []))


PROP = C15()
