"""C09 -- checkpoints round-trip and resuming is equivalent to never stopping.

The lock-step harness (lockstep.py) with checkpoint operations: the state is
saved at a step boundary, goes through the in-memory torch.save/load (deep
copy) into a freshly constructed preconditioner on every rank, and the run
continues.  The reference state machine has a 'load' transition (second-order
data := recomputed from the restored factors at damping(steps) when
compute_inverses, otherwise to be recomputed on the next step), which is the
case split the property states.
"""

from __future__ import annotations

from vkit.framework import Prop, pick
from vkit.props import lockstep


def divisors(n):
    return [k for k in range(1, n + 1) if n % k == 0]


class C09(Prop):
    id = 'C09'
    title = 'Checkpoints round-trip and resuming is equivalent to never stopping'
    assumptions = ['A-real; LAPACK by uninterpreted stubs with congruence; torch.save/load is a deep copy (in-memory file system)',
                   'documented preconditions: resuming with compute_inverses=False (or without factors) requires the next iteration to be '
                   'an inverse (factor) update step; callable hyper-parameters are not part of the state and are re-supplied',
                   'torch.distributed by the simulator contract']
    stubs = ['torch.save/load -> in-memory', 'torch.distributed -> simulator', 'torch.linalg.* -> uninterpreted with congruence']
    trusted_base = ['z3 5.1.0', 'vkit.symex', 'symtorch shim', 'kfac_ref with load transition (vkit/props/lockstep.py)']
    replay_tol = 5e-3
    task_timeout = {'quick': 400, 'thorough': 1200}

    def bounds(self, tier):
        return {'world': [1, 2] if tier == 'quick' else [1, 2, 4], 'strategies': 'every divisor k', 'checkpoint_position': 'every position of a '
                '3-operation history from an arbitrary boundary state or from a fresh object (boundary 0)',
                'variants': ['compute_inverses=True', 'compute_inverses=False', 'include_factors=False'],
                'intervals_and_hyperparameters': 'symbolic constants or uninterpreted functions of the step',
                'methods': ['eigen', 'eigen-prediv', 'inverse']}

    def configs(self, tier, seed):
        out = []
        hists = [['ckpt', 'train'], ['train', 'ckpt', 'train'], ['ckpt-noinv', 'train'], ['train', 'ckpt-noinv', 'train'],
                 ['ckpt-nofactors', 'train'], ['train', 'ckpt', 'eval', 'train'] if tier == 'thorough' else ['eval', 'ckpt', 'train']]
        worlds = [1, 2] if tier == 'quick' else [1, 2, 4]
        i = 0
        for w in worlds:
            for k in divisors(w):
                for h in hists:
                    for method in ('eigen', 'eigen-prediv', 'inverse'):
                        for hp in ('const', 'callable'):
                          i += 1
                          if tier == 'quick' and not pick((w, k, h, method, hp), 6, seed):
                              continue
                          if tier == 'thorough' and not pick((w, k, h, method, hp), 2, seed):
                              continue
                          out.append({'harness': 'lockstep', 'world': w, 'k': k, 'ops': h, 'method': method,
                                    'hp': hp, 'intervals': 'callable' if hp == 'callable' else 'sym',
                                    'hook': pick((i, 'hook'), 2), 'acc': 1,
                                    'model': ['lin', 'two' if (tier == 'thorough' and w == 1 and len(h) <= 2) else 'lin-nb', 'conv'][i % 3], 'clip': False,
                                    'init': 'arbitrary', 'colocate': True})
        # boundary 0: a freshly constructed object is checkpointed before any step
        for method in ('eigen', 'inverse'):
            out.append({'harness': 'lockstep', 'world': 1, 'k': 1, 'ops': ['ckpt', 'train'], 'method': method, 'hp': 'const',
                        'intervals': 'sym', 'hook': True, 'acc': 1, 'model': 'lin', 'clip': False, 'init': 'fresh'})
        return out

    def run(self, cfg, eng):
        lockstep.run(cfg, eng)


PROP = C09()
