"""C08 -- bucketed allreduce is equivalent to per-tensor allreduce.

One real TorchDistributedCommunicator per simulated rank.  Every tensor
element on every rank is symbolic; the bucket capacity is a symbolic real, so
`bucket.size + tensor_size > cap` forks and every feasible bucketing pattern
(capacity below one tensor, between, above all) is covered.  Sequences, shapes,
dtype tags, flags and target groups are enumerated.
"""

from __future__ import annotations

import itertools

from vkit import harness as H
from vkit import kfh
from vkit import oracle as O
from vkit import symex
from vkit.framework import Prop
from vkit.symex import And, Or

SHAPES = [(1,), (3,), (2, 2), (3, 3), (2, 3)]

# group layouts: name -> (world, {group name: ranks or None for the world})
LAYOUTS = {
    'world2': (2, {'w': None}),
    'world3': (3, {'w': None}),
    'grid2x2': (4, {'row0': [0, 1], 'row1': [2, 3], 'col0': [0, 2], 'col1': [1, 3]}),
    'world+sub': (3, {'w': None, 'sub': [0, 1], 'single': [2]}),
    'world4+pair': (4, {'w': None, 'pair': [1, 2]}),
}


def seqs(tier):
    """enumerated tensor sequences: list of (shape index, dtype tag, average, symmetric, group slot)"""
    out = [
        [(0, 'fp32', True, False, 0), (2, 'fp32', True, True, 0), (1, 'fp32', False, False, 0)],
        [(3, 'fp32', True, True, 0), (4, 'fp32', True, False, 1), (2, 'fp32', False, False, 0), (0, 'fp32', True, False, 1)],
        [(2, 'fp16', True, False, 0), (2, 'fp16', False, True, 1), (1, 'fp16', True, False, 0)],
        [(1, 'fp32', False, False, 1), (1, 'fp32', True, False, 0), (0, 'fp32', True, False, 2), (2, 'fp32', True, True, 2)],
    ]
    if tier == 'thorough':
        out += [
            [(3, 'fp32', True, True, 0), (3, 'fp32', False, False, 1), (4, 'fp32', True, False, 2), (0, 'fp32', False, False, 0),
             (2, 'fp32', True, True, 1)],
            [(4, 'fp16', True, False, 2), (4, 'fp16', False, False, 1), (1, 'fp16', True, False, 0), (2, 'fp16', True, True, 0)],
        ]
    return out


class C08(Prop):
    id = 'C08'
    title = 'Bucketed allreduce is equivalent to per-tensor allreduce'
    assumptions = ['A-real (dtype is a tag; one dtype per sequence)',
                   'torch.distributed by the simulator contract: per-group FIFO matching, in-place sums; the result is schedule '
                   'independent given matching, three baton policies are run in addition']
    stubs = ['torch.distributed -> simulator', 'kfac.distributed.int -> sym_int (bucket_cap_bytes)']
    replay_random_tries = 1   # structural failures do not depend on the data
    trusted_base = ['z3 5.1.0', 'vkit.symex', 'symtorch shim', 'bucket_ref in this file']
    replay_tol = 1e-5

    def bounds(self, tier):
        return {'layouts': {k: v[1] for k, v in LAYOUTS.items()}, 'sequences': len(seqs(tier)), 'tensors_per_sequence': '3..4 (5)',
                'shapes': [str(s) for s in SHAPES], 'cycles': '1..2 fill/flush cycles', 'capacity': 'symbolic real >= 0',
                'values': 'every element on every rank symbolic'}

    def configs(self, tier, seed):
        out = []
        for lay in LAYOUTS:
            for si in range(len(seqs(tier))):
                for cycles in (1, 2):
                    if cycles == 2 and si % 2:
                        continue
                    out.append({'harness': 'buckets', 'layout': lay, 'seq': si, 'cycles': cycles,
                                'policy': ['rr', 'reverse', 'high'][(si + cycles) % 3]})
        return out

    def run(self, cfg, eng):
        import kfac.distributed as D
        world, groups = LAYOUTS[cfg['layout']]
        gnames = list(groups)
        seq = seqs('thorough')[cfg['seq']]
        cap = eng.fresh_real('bucket_cap_mb')
        eng.assume(cap >= 0, check=False)
        sym = eng.concrete is None
        # per cycle, per tensor: target group by slot (wrapping over the layout's groups)
        plan = []
        for c in range(cfg['cycles']):
            for ti, (shi, dt, avg, symm, slot) in enumerate(seq):
                gname = gnames[(slot + c) % len(gnames)]
                plan.append((c, ti, SHAPES[shi], dt, avg, symm and len(SHAPES[shi]) == 2 and SHAPES[shi][0] == SHAPES[shi][1], gname))
        data = {}
        for (c, ti, shape, dt, avg, symm, gname) in plan:
            ranks = groups[gname] if groups[gname] is not None else list(range(world))
            for r in ranks:
                data[(c, ti, r)] = H.sym_list(eng, f't{c}_{ti}_r{r}', shape, symmetric=symm)

        def rank(r):
            import torch.distributed as dist
            handles = {}
            for gname in gnames:   # same creation order on every rank
                handles[gname] = None if groups[gname] is None else dist.new_group(groups[gname])
            tdc = D.TorchDistributedCommunicator(bucket_cap_mb=cap)
            outs = []
            for c in range(cfg['cycles']):
                futs = []
                for (cc, ti, shape, dt, avg, symm, gname) in plan:
                    if cc != c:
                        continue
                    ranks = groups[gname] if groups[gname] is not None else list(range(world))
                    if r not in ranks:
                        continue
                    t = H.from_list(data[(c, ti, r)], H.dtype_of(dt))
                    f = tdc.allreduce_bucketed(t, average=avg, symmetric=symm, group=handles[gname])
                    futs.append((ti, f, H.dtype_tag(t)))
                tdc.flush_allreduce_buckets()
                for ti, f, tag in futs:
                    res = f.wait() if not hasattr(f, 'shape') else f
                    outs.append((c, ti, H.vals(res), tuple(res.shape), H.dtype_tag(res), tag))
                left = [k for k, b in tdc._allreduce_buckets.items() if b is not None]
                outs.append(('pending', c, len(left)))
            return outs

        wr = kfh.run_world(world, rank, eng, policy=cfg['policy'])
        eng.oblige('no-error-no-mismatch-no-stall', not wr.errors and not wr.violations,
                   info={'errors': str(wr.errors)[:300], 'violations': str(wr.violations)[:400]})
        if wr.errors or wr.violations:
            return
        eng.witness('all cycles flushed')
        byplan = {(c, ti): (shape, dt, avg, symm, gname) for (c, ti, shape, dt, avg, symm, gname) in plan}
        for r in range(world):
            for item in wr.results[r]:
                if item[0] == 'pending':
                    eng.oblige('nothing-pending-after-flush', item[2] == 0, info={'rank': r, 'cycle': item[1]})
                    continue
                c, ti, vals, shape, tag, tag_in = item
                pshape, dt, avg, symm, gname = byplan[(c, ti)]
                ranks = groups[gname] if groups[gname] is not None else list(range(world))
                eng.oblige('result-shape-and-dtype-of-the-unbucketed-allreduce', shape == tuple(pshape) and tag == tag_in,
                           info={'shape': str(shape), 'tag': tag})
                if shape != tuple(pshape):
                    return
                ref = _sum_lists([data[(c, ti, q)] for q in ranks])
                if avg:
                    ref = _scale(ref, len(ranks))
                eng.oblige_all_eq('future-equals-unbucketed-allreduce-within-the-requested-group', O.pairs(vals, ref),
                                  info={'rank': r, 'tensor': ti, 'cycle': c, 'group': gname})
        if not wr.events:
            return
        # communication structure (simulator event log)
        cap_bytes = symex.sym_int(cap * 1000 * 1000) if sym else int(cap * 1000 * 1000)
        for r in range(world):
            evs = [e for e in wr.events if e['rank'] == r and e['kind'] == 'all_reduce' and e.get('phase') == 'issue']
            for gname in gnames:
                ranks = groups[gname] if groups[gname] is not None else list(range(world))
                if r not in ranks or len(ranks) == 1:
                    continue
                mine = [(c, ti) for (c, ti, shape, dt, avg, symm, g2) in plan if g2 == gname]
                if not mine:
                    continue
                sizes = []
                for (c, ti) in mine:
                    shape, dt, avg, symm, _ = byplan[(c, ti)]
                    n = 1
                    for s_ in shape:
                        n *= s_
                    if symm:
                        n = shape[0] * (shape[0] + 1) // 2
                    sizes.append(n)
                sent = [e['nelem'] for e in evs if sorted(e['group']) == sorted(ranks)]
                eng.oblige('each-tensor-communicated-exactly-once-in-its-own-group', sum(sent) == sum(sizes),
                           info={'rank': r, 'group': gname, 'sent': str(sent), 'tensors': str(sizes)})
                if sum(sent) != sum(sizes):
                    return
                # recover the buckets (consecutive runs) and bound multi-tensor buckets by the capacity
                i = 0
                elsize = 2 if byplan[mine[0]][1] == 'fp16' else 4
                for n_ev in sent:
                    run, tot = [], 0
                    while i < len(sizes) and tot < n_ev:
                        run.append(sizes[i])
                        tot += sizes[i]
                        i += 1
                    eng.oblige('buckets-are-consecutive-runs-of-whole-tensors', tot == n_ev, info={'event': n_ev, 'run': str(run)})
                    if tot != n_ev:
                        return
                    if len(run) > 1:
                        eng.oblige('multi-tensor-bucket-within-capacity', tot * elsize <= cap_bytes,
                                   info={'bytes': tot * elsize, 'run': str(run)})
            # single-member groups communicate nothing
            for gname in gnames:
                ranks = groups[gname]
                if ranks is not None and len(ranks) == 1 and r in ranks:
                    eng.oblige('single-member-group-communicates-nothing',
                               not [e for e in evs if sorted(e['group']) == sorted(ranks)])


def _sum_lists(lists):
    if not isinstance(lists[0], list):
        tot = 0
        for v in lists:
            tot = tot + v
        return tot
    return [_sum_lists([lst[i] for lst in lists]) for i in range(len(lists[0]))]


def _scale(x, n):
    if isinstance(x, list):
        return [_scale(y, n) for y in x]
    return x / n


PROP = C08()
