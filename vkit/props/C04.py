"""C04 -- Kronecker factors are decayed running averages of batch second moments.

The real KFACPreconditioner (hooks, accumulation, EMA, factor all-reduce) runs
on every simulated rank with symbolic activations / output-gradients for every
rank and micro-batch, symbolic previous factors, decay, loss scale, step count
and factor-update interval.  The oracle is  decay*prev + (1-decay)*M  with M
the mean over ranks and micro-batches of the second moment of the
(bias-augmented / patch-unfolded, spatially normalised) rows.
"""

from __future__ import annotations

from vkit import harness as H
from vkit import kfh
from vkit import oracle as O
from vkit import symex
from vkit.framework import Prop
from vkit.symex import And

SPECS = {
    'lin': ('linear', 2, 1, True),
    'lin-nb': ('linear', 2, 2, False),
    'lin3d': ('linear', 2, 1, True),
    'conv': ('conv', 1, 1, (2, 1), (1, 1), (0, 0), True, 2, 2),
    'conv-pad': ('conv', 1, 2, (1, 2), (1, 2), (0, 1), False, 2, 3),
    'conv-pad2': ('conv', 1, 1, (2, 2), (1, 1), (1, 0), True, 2, 2),
}


class C04(Prop):
    id = 'C04'
    title = 'Kronecker factors are decayed running averages of batch second moments'
    assumptions = ['A-real (factor dtype is a tag; rounding in the requested dtype is outside the claim)',
                   'positive semi-definiteness follows from the proved recurrence because M is a Gram matrix by construction of the '
                   'oracle and decay is in (0,1]; symmetry is proved directly',
                   'torch.distributed by the simulator contract; gradients / second-order stubs are irrelevant to the factors']
    stubs = ['torch.distributed -> simulator', 'torch.linalg.eigh -> uninterpreted']
    trusted_base = ['z3 5.1.0', 'vkit.symex', 'symtorch shim', 'oracle kfh.a_rows / g_rows / second_moment']
    replay_tol = 1e-4

    def bounds(self, tier):
        return {'layers': {k: str(v) for k, v in SPECS.items()}, 'world': [1, 2] if tier == 'quick' else [1, 2, 3],
                'accumulation_steps': [1, 2] if tier == 'quick' else [1, 2, 3], 'successive_updates': '1..2',
                'previous_factors': 'identity init (fresh) or arbitrary symmetric symbols (loaded)',
                'interval_and_step': 'symbolic factor_update_steps >= 1 and step count (loaded mode)',
                'decay': 'symbolic in (0,1] or callable', 'loss_scale': 'None or symbolic > 0',
                'factor_dtype': [None, 'fp32', 'fp16'], 'comm': ['plain', 'bucketed', 'symmetric'],
                'eval_pass': 'one eval-mode forward/backward interleaved with the micro-batches'}

    def configs(self, tier, seed):
        out = []
        worlds = [1, 2] if tier == 'quick' else [1, 2, 3]
        accs = [1, 2] if tier == 'quick' else [1, 2, 3]
        i = 0
        for name in SPECS:
            for w in worlds:
                for acc in accs:
                    for mode in ('fresh', 'loaded'):
                        i += 1
                        if tier == 'quick' and w == 2 and acc == 2 and name not in ('lin', 'conv'):
                            continue
                        out.append({
                            'harness': 'recurrence', 'layer': name, 'world': w, 'acc': acc, 'mode': mode,
                            'hook': bool(i % 3), 'scaler': bool(i % 2), 'alpha': 'callable' if i % 4 == 0 else 'const',
                            'fdtype': [None, 'fp32', 'fp16'][i % 3], 'comm': ['plain', 'bucketed', 'symmetric'][i % 3],
                            'updates': 2 if (mode == 'fresh' and w == 1 and acc == 1) else 1,
                            'eval': bool((i // 2) % 2)})
        return out

    def run(self, cfg, eng):
        import kfac.preconditioner as P
        from kfac.enums import ComputeMethod
        spec = SPECS[cfg['layer']]
        w, acc, mode = cfg['world'], cfg['acc'], cfg['mode']
        extra = (2,) if cfg['layer'] == 'lin3d' else ()
        na, ng = kfh.a_dim(spec), kfh.g_dim(spec)
        B = 1 if spec[0] == 'conv' else 2
        sym = eng.concrete is None
        # symbols
        if cfg['alpha'] == 'callable':
            fa = eng.fresh_func('decay_at')
            alpha_arg = lambda k: fa(k)   # noqa: E731
        else:
            a0 = eng.fresh_real('decay')
            alpha_arg = a0
        scale = None
        if cfg['scaler']:
            scale = eng.fresh_real('loss_scale')
            eng.assume(scale > 0, check=False)
        if mode == 'loaded':
            t0 = eng.fresh_int('steps0')
            fus = eng.fresh_int('factor_update_steps')
            eng.assume(And(t0 >= 0, fus >= 1), check=False)
            A0 = H.sym_list(eng, 'A0', (na, na), symmetric=True)
            G0 = H.sym_list(eng, 'G0', (ng, ng), symmetric=True)
        else:
            t0, fus, A0, G0 = 0, 1, None, None
        nup = cfg['updates']
        data = {(r, u, m): kfh.sym_batch(eng, f'_{r}_{u}_{m}', spec, B, extra)
                for r in range(w) for u in range(nup) for m in range(acc)}
        evald = kfh.sym_batch(eng, '_eval', spec, B, extra)
        fdt = H.dtype_of(cfg['fdtype'])
        in_dt = H.dtype_of('fp32')

        def alpha_at(k):
            return alpha_arg(k) if callable(alpha_arg) else alpha_arg

        for u in range(nup):
            av = alpha_at(t0 + u)
            if sym:
                eng.assume(And(av > 0, av <= 1), check=False)
            elif not (0 < av <= 1):
                raise symex.PathAbort('decay range')

        def rank(r):
            model, (mod,) = kfh.build_model([spec])
            import warnings
            with warnings.catch_warnings():
                warnings.simplefilter('ignore')
                pre = P.KFACPreconditioner(
                    model, factor_decay=alpha_arg, factor_update_steps=fus, inv_update_steps=1,
                    accumulation_steps=acc, update_factors_in_hook=cfg['hook'], kl_clip=None,
                    grad_scaler=(lambda: scale) if scale is not None else None, factor_dtype=fdt,
                    allreduce_bucket_cap_mb=25.0 if cfg['comm'] == 'bucketed' else 0.0,
                    symmetry_aware=cfg['comm'] == 'symmetric', compute_method=ComputeMethod.EIGEN,
                    compute_eigenvalue_outer_product=False)
            if mode == 'loaded':
                pre.load_state_dict({'steps': t0, 'layers': {'0': {'A': H.from_list(A0, fdt or in_dt),
                                                                    'G': H.from_list(G0, fdt or in_dt)}}},
                                    compute_inverses=False)
            outs = []
            for u in range(nup):
                for m in range(acc):
                    if cfg['eval'] and m == (1 if acc > 1 else 0):
                        before = pre.state_dict()['layers']['0']
                        mod.eval()
                        kfh.feed(mod, evald[0], evald[1], in_dt)
                        mod.train()
                        after = pre.state_dict()['layers']['0']
                        same = all((before[k] is after[k]) or (before[k] is not None and after[k] is not None
                                                                and H.vals(before[k]) == H.vals(after[k]))
                                   for k in ('A', 'G')) if not sym else all(before[k] is after[k] for k in ('A', 'G'))
                        outs.append(('eval-unchanged', bool(same)))
                    x, gy = data[(r, u, m)]
                    kfh.feed(mod, x, gy, in_dt)
                dw = [[1] * len(H.flat(row)) for row in range(0)]
                ws, bs = kfh.grad_shapes(spec)
                mod.weight.grad = H.from_list(_ones(ws), None if H.SHIM else mod.weight.dtype)
                if kfh.has_bias(spec):
                    mod.bias.grad = H.from_list(_ones(bs), None if H.SHIM else mod.bias.dtype)
                pre.step()
                sd = pre.state_dict()['layers']['0']
                outs.append(('factors', H.vals(sd['A']), H.vals(sd['G']),
                             H.dtype_tag(sd['A']) if sd['A'] is not None else None, pre.steps))
            return outs

        wr = kfh.run_world(w, rank, eng, policy=['rr', 'reverse', 'high'][cfg['acc'] % 3])
        eng.oblige('no-error-and-no-communication-violation', not wr.errors and not wr.violations,
                   info={'errors': str(wr.errors)[:300], 'violations': str(wr.violations)[:300]})
        if wr.errors or wr.violations:
            return
        eng.witness('run complete')
        ref = kfh.KfacRef([spec])
        ref.A[0], ref.G[0] = A0, G0
        for r in range(w):
            ui = 0
            for item in wr.results[r]:
                if item[0] == 'eval-unchanged':
                    eng.oblige('eval-mode-pass-leaves-factors-unchanged', item[1], info={'rank': r})
        for u in range(nup):
            is_update = (t0 + u) % fus == 0 if mode == 'loaded' else True
            upd = bool(is_update)   # forced by the path condition
            if upd:
                xs = [data[(r, u, m)][0] for r in range(w) for m in range(acc)]
                gs = [data[(r, u, m)][1] for r in range(w) for m in range(acc)]
                # mean over ranks of the per-rank micro-batch means == mean over all (equal counts)
                ref.update_factors(0, xs, gs, alpha_at(t0 + u), scale)
            for r in range(w):
                facts = [it for it in wr.results[r] if it[0] == 'factors'][u]
                _, A, G, tag, steps = facts
                eng.oblige('step-count-advanced-by-one', steps == t0 + u + 1)
                if ref.A[0] is None:
                    eng.oblige('no-factor-before-first-update', A is None and G is None)
                    continue
                eng.oblige('factor-exists', A is not None and G is not None)
                if A is None or G is None:
                    return
                eng.oblige('factor-shapes', O.shape(A) == (na, na) and O.shape(G) == (ng, ng))
                name = 'A-is-decay*prev+(1-decay)*mean-second-moment' if upd else 'A-unchanged-on-non-update-step'
                eng.oblige_all_eq(name, O.pairs(A, ref.A[0]), info={'rank': r, 'update': u})
                name = 'G-is-decay*prev+(1-decay)*mean-second-moment' if upd else 'G-unchanged-on-non-update-step'
                eng.oblige_all_eq(name, O.pairs(G, ref.G[0]), info={'rank': r, 'update': u})
                eng.oblige_all_eq('factors-symmetric', O.pairs(A, O.T(A)) + O.pairs(G, O.T(G)))
                want_tag = {None: 'float32', 'fp32': 'float32', 'fp16': 'float16'}[cfg['fdtype']]
                if H.SHIM:
                    eng.oblige('factor-stored-in-requested-dtype', tag == want_tag, info={'tag': tag, 'want': want_tag})


def _ones(shape):
    if len(shape) == 1:
        return [1] * shape[0]
    return [_ones(shape[1:]) for _ in range(shape[0])]


PROP = C04()
