"""C05 -- update intervals and hyper-parameter schedules are honoured over any
history.  Inductive form: from an arbitrary step-boundary state (see
lockstep.py) the real preconditioner and the reference state machine run k
operations in lock-step; step count, factors and gradients are compared after
every operation.  Because t0, the intervals and the schedule values are
unconstrained symbols, k steps from an arbitrary state cover histories of any
length as far as the state abstraction (step count, factors, second-order data
= f(factors and damping at refresh time), empty batch buffers) is closed.
"""

from __future__ import annotations

import itertools

from vkit.framework import Prop, pick
from vkit.props import lockstep


class C05(Prop):
    id = 'C05'
    title = 'Update intervals and hyperparameter schedules are honoured over any history'
    assumptions = ['A-real; LAPACK by uninterpreted stubs with congruence',
                   'state abstraction of the induction: step count, factors, second-order data computed from arbitrary earlier factors '
                   'at an arbitrary earlier step, empty batch buffers; scheduler semantics themselves are C19, checkpoints C09',
                   'reset_batch is exercised at step boundaries and, in no-hook mode, in the middle of an accumulation window']
    stubs = ['torch.linalg.eigh / inv -> uninterpreted with congruence', 'math.sqrt -> contract stub']
    trusted_base = ['z3 5.1.0', 'vkit.symex', 'symtorch shim', 'kfac_ref (vkit/kfh.py)']
    replay_tol = 5e-3
    task_timeout = {'quick': 400, 'thorough': 1200}

    def bounds(self, tier):
        return {'operations_from_an_arbitrary_boundary_state': 2 if tier == 'quick' else 3,
                'ops': ['train', 'eval', 'reset', 'partial-reset-train'], 'intervals': 'symbolic Int >= 1 or uninterpreted functions of the step',
                'hyperparameters': 'symbolic constants or uninterpreted functions of the step (damping, decay, kl_clip, lr)',
                'accumulation': [1, 2], 'updates': 'hook / no-hook', 'methods': ['eigen', 'eigen-prediv', 'inverse'], 'world': 1}

    def configs(self, tier, seed):
        out = []
        n = 2 if tier == 'quick' else 3
        alphabet = ['train', 'eval', 'reset', 'partial-reset-train']
        seqs = [list(s) for s in itertools.product(alphabet, repeat=n) if 'train' in s or 'partial-reset-train' in s]
        i = 0
        for s in seqs:
            for method in ('eigen', 'eigen-prediv', 'inverse'):
                for hp in ('const', 'callable'):
                    i += 1
                    hook = bool(i % 2)
                    if 'partial-reset-train' in s:
                        hook = False
                    if tier == 'quick' and (i + len(''.join(s))) % 3:
                        continue
                    if tier == 'thorough' and not pick((tuple(s), method, hp), 4, seed):
                        continue
                    model = ['lin', 'lin-nb', 'conv', 'two'][i % 4]
                    if model == 'two':
                        model = 'lin-nb'   # two-layer models do not finish 3-operation histories within the per-task limit
                    acc = 1 + (i // 2) % 2
                    if tier == 'quick' and model != 'lin-nb':
                        acc = 1
                    if model == 'two' or (tier == 'thorough' and not hook):
                        acc = 1   # no-hook accumulation over 3-operation histories left one identity undecided (unknown)
                    out.append({'harness': 'lockstep', 'ops': s, 'method': method, 'hp': hp,
                                'intervals': 'callable' if hp == 'callable' else 'sym', 'hook': hook, 'acc': acc,
                                'model': model, 'clip': (i % 7 == 0 and hp == 'const' and method == 'inverse' and acc == 1
                                                          and 'partial-reset-train' not in s),
                                'init': 'arbitrary'})
        return out

    def run(self, cfg, eng):
        lockstep.run(cfg, eng)


PROP = C05()
