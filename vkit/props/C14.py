"""C14 -- triangular packing of symmetric matrices is lossless.

round-trip: fill_triu(shape, get_triu(X)) == X for a symbolic symmetric X
(X[i,j] and X[j,i] are the same symbol, all others distinct, so any index
permutation is visible), contiguous and transposed-view inputs, all dtype tags.
communication: symmetric allreduce / broadcast / allreduce_bucketed return the
dense result on the simulator (symbolic contents).
rejection: a shape-only tensor whose dimensions are symbolic integers must be
rejected with NonSquareTensorError before any communication on every path with
r != c; 1-D and 3-D shapes likewise.
"""

from __future__ import annotations

from vkit import harness as H
from vkit import kfh
from vkit import oracle as O
from vkit import symex
from vkit.framework import Prop


class CutPath(Exception):
    pass


class ShapeOnly:
    """A tensor of which only the (symbolic) shape may be inspected."""

    def __init__(self, dims):
        self._dims = tuple(dims)

    def size(self, d=None):
        return self._dims if d is None else self._dims[d]

    @property
    def shape(self):
        return self._dims

    def dim(self):
        return len(self._dims)

    def __getattr__(self, name):
        raise CutPath(name)


class C14(Prop):
    id = 'C14'
    title = 'Triangular packing of symmetric matrices is lossless'
    assumptions = ['values are exact (packing only moves elements, so A-real is immaterial here)',
                   'torch.distributed by the simulator contract (per-group FIFO matching, in-place results)']
    stubs = ['torch.distributed -> simulator']
    replay_random_tries = 2   # structural failures do not depend on the data
    trusted_base = ['z3 5.1.0', 'vkit.symex', 'symtorch shim indexing semantics (validated against torch for the triu pipeline)']

    def bounds(self, tier):
        return {'n': '1..16' if tier == 'quick' else '1..48', 'dtype_tags': ['fp32', 'fp16', 'fp64'],
                'layouts': ['contiguous', 'transposed view'], 'world': [2, 3],
                'rejection': 'symbolic (r, c) with r != c; ranks 1 and 3 with symbolic dims'}

    def configs(self, tier, seed):
        out = []
        top = 16 if tier == 'quick' else 48
        for n in range(1, top + 1):
            for dt in ('fp32', 'fp16', 'fp64'):
                if dt != 'fp32' and n > 6 and n % 5:
                    continue
                out.append({'harness': 'roundtrip', 'n': n, 'dtype': dt})
        for w in (2, 3):
            for n in (1, 2, 3, 4):
                for op in ('allreduce', 'broadcast', 'allreduce_bucketed'):
                    out.append({'harness': 'comm', 'world': w, 'n': n, 'op': op})
        for op in ('allreduce', 'broadcast', 'allreduce_bucketed'):
            for rank in (1, 2, 3):
                out.append({'harness': 'reject', 'op': op, 'rank': rank})
        return out

    def run(self, cfg, eng):
        getattr(self, 'h_' + cfg['harness'])(cfg, eng)

    def h_roundtrip(self, cfg, eng):
        import kfac.distributed as D
        n = cfg['n']
        X = H.sym_list(eng, 'X', (n, n), symmetric=True)
        dt = H.dtype_of(cfg['dtype'])
        for layout in ('contiguous', 'transposed'):
            t = H.from_list(X, dt)
            if layout == 'transposed':
                t = H.from_list(O.T(X), dt).t()
            tri = D.get_triu(t)
            eng.oblige('packed-length-is-n(n+1)/2', tri.nelement() == n * (n + 1) // 2 and tri.dim() == 1)
            want = [X[i][j] for i in range(n) for j in range(i, n)]
            eng.oblige_all_eq('packed-elements-are-the-row-major-upper-triangle', O.pairs(H.vals(tri), want))
            back = D.fill_triu([n, n], tri)
            eng.oblige('unpacked-shape-and-dtype', tuple(back.shape) == (n, n) and H.dtype_tag(back) == H.dtype_tag(t))
            eng.oblige_all_eq('fill_triu(get_triu(X))==X', O.pairs(H.vals(back), X), info={'layout': layout})
            eng.oblige('input-not-modified', H.version(t) == 0 if H.SHIM else True)
        eng.witness('round trip')

    def h_comm(self, cfg, eng):
        import kfac.distributed as D
        w, n, op = cfg['world'], cfg['n'], cfg['op']
        Xs = [H.sym_list(eng, f'X{r}_', (n, n), symmetric=True) for r in range(w)]

        def rank(r):
            outs = {}
            for symmetric in (False, True):
                tdc = D.TorchDistributedCommunicator(bucket_cap_mb=25.0)
                t = H.from_list(Xs[r])
                if op == 'allreduce':
                    f = tdc.allreduce(t, average=True, symmetric=symmetric)
                elif op == 'broadcast':
                    f = tdc.broadcast(t, src=w - 1, symmetric=symmetric)
                else:
                    f = tdc.allreduce_bucketed(t, average=True, symmetric=symmetric)
                    tdc.flush_allreduce_buckets()
                res = f.wait() if not isinstance(f, type(t)) else f
                outs[symmetric] = (H.vals(res), tuple(res.shape), H.dtype_tag(res))
            return outs
        wr = kfh.run_world(w, rank, eng)
        eng.oblige('no-communication-error', not wr.errors and not wr.violations,
                   info={'errors': str(wr.errors)[:200], 'violations': str(wr.violations)[:200]})
        if wr.errors or wr.violations:
            return
        eng.witness('communicated')
        if op == 'broadcast':
            dense_ref = Xs[w - 1]
        else:
            dense_ref = [[sum((Xs[r][i][j] for r in range(w)), 0) / w for j in range(n)] for i in range(n)]
        for r in range(w):
            dense, sym = wr.results[r][False], wr.results[r][True]
            eng.oblige('symmetric-result-has-dense-shape-and-dtype', dense[1:] == sym[1:])
            eng.oblige_all_eq('dense-result-is-the-reference', O.pairs(dense[0], dense_ref))
            eng.oblige_all_eq('symmetric-result-equals-dense-result', O.pairs(sym[0], dense[0]), info={'rank': r})
        if wr.events:
            elems = [e['nelem'] for e in wr.events if e.get('phase') == 'issue' and e['kind'] in ('all_reduce', 'broadcast')]
            eng.oblige('symmetric-sends-n(n+1)/2-elements', sorted(set(elems)) == sorted({n * n, n * (n + 1) // 2}),
                       info={'elems': str(sorted(set(elems)))})

    def h_reject(self, cfg, eng):
        import kfac.distributed as D
        op, nd = cfg['op'], cfg['rank']
        real = eng.concrete is not None and not H.SHIM
        dims = [eng.fresh_int(f'd{i}') for i in range(nd)]
        for d in dims:
            eng.assume(d >= 1, check=False)
        outcome = {}

        def rank(r):
            tdc = D.TorchDistributedCommunicator()
            if real:
                import torch
                t = torch.zeros(*[min(int(d), 6) for d in dims])
            else:
                t = ShapeOnly(dims)
            try:
                if op == 'allreduce':
                    tdc.allreduce(t, symmetric=True)
                elif op == 'broadcast':
                    tdc.broadcast(t, src=0, symmetric=True)
                else:
                    tdc.allreduce_bucketed(t, symmetric=True)
                    tdc.flush_allreduce_buckets()
                outcome[r] = 'accepted' if real else 'returned'
            except D.NonSquareTensorError:
                outcome[r] = 'rejected'
            except CutPath:
                outcome[r] = 'accepted'
            return outcome[r]
        wr = kfh.run_world(2, rank, eng)
        if real:
            outcome = dict(wr.results)
            for r, e in wr.errors.items():
                outcome[r] = 'error: ' + str(e)[:80]
        eng.witness('decided')
        square = (nd == 2) and bool(dims[0] == dims[1])
        comm = [e for e in wr.events if e['kind'] not in ('wait',)]
        for r in range(2):
            if square:
                eng.oblige('square-2d-tensor-not-rejected', outcome.get(r) == 'accepted', info={'outcome': outcome.get(r)})
            else:
                eng.oblige('non-square-or-non-2d-rejected', outcome.get(r) == 'rejected', info={'outcome': outcome.get(r), 'nd': nd})
                eng.oblige('rejected-before-any-communication', not comm, info={'events': str(comm[:2])})


PROP = C14()
