"""C07 -- KL clipping bounds the update and only rescales it.

unit harness: arbitrary (symbolic) preconditioned gradients V are installed
through the layers' public `grad` setter, raw gradients D on the modules; the
real `_compute_grad_scale` and `update_grad` run; `math.sqrt` is the contract
stub whose argument is logged.  step harness: the full `step()` with the
inverse method and uninterpreted inverses, so V = Ginv D Ainv.
"""

from __future__ import annotations

from vkit import harness as H
from vkit import kfh
from vkit import oracle as O
from vkit import symex
from vkit.framework import Prop
from vkit.symex import And, Implies

MODELS = {
    'lin22b': [('linear', 2, 2, True)],
    'lin21': [('linear', 2, 1, False)],
    'lin-lin': [('linear', 2, 2, True), ('linear', 2, 1, False)],
    'conv': [('conv', 1, 2, (2, 1), (1, 1), (0, 0), True, 2, 2)],
    'conv-lin': [('conv', 1, 1, (1, 2), (1, 1), (0, 0), False, 2, 2), ('linear', 1, 2, True)],
    'three': [('linear', 1, 1, True), ('linear', 1, 2, False), ('linear', 2, 1, True)],
    'nb-b': [('linear', 1, 2, False), ('linear', 2, 1, True)],
}


class C07(Prop):
    id = 'C07'
    title = 'KL clipping bounds the update and only rescales it'
    assumptions = ['A-real; math.sqrt(x) is modelled as the unique r >= 0 with r*r = x (rounding of sqrt outside the claim)',
                   'multi-rank agreement of the scale is covered by C02 (same symbols on every rank)']
    stubs = ['math.sqrt -> SymMath.sqrt (fresh r >= 0, argument logged, obligation argument >= 0)',
             'torch.linalg.inv -> uninterpreted with congruence (step harness)']
    trusted_base = ['z3 5.1.0', 'vkit.symex', 'symtorch shim']
    replay_tol = 1e-4

    def bounds(self, tier):
        return {'models': {k: [str(s) for s in v] for k, v in MODELS.items()},
                'clip': ['symbolic constant', 'callable (uninterpreted function of the step)', 'None'],
                'lr': ['symbolic constant', 'callable'],
                'values': 'V, D, lr, kl_clip symbolic'}

    def configs(self, tier, seed):
        out = []
        for m in MODELS:
            for mode in ('const', 'callable', 'none'):
                out.append({'harness': 'unit', 'model': m, 'mode': mode})
        for m in ('lin22b', 'lin-lin', 'conv', 'nb-b') if tier == 'quick' else MODELS:
            for mode in ('const', 'none'):
                out.append({'harness': 'step', 'model': m, 'mode': mode})
        for m in ('lin21', 'nb-b') if tier == 'quick' else ('lin21', 'nb-b', 'lin-lin', 'conv-lin'):
            for prediv in (False, True):
                out.append({'harness': 'step', 'model': m, 'mode': 'const', 'method': 'eigen', 'prediv': prediv})
        out.append({'harness': 'bound-lemma'})
        return out

    def run(self, cfg, eng):
        if cfg['harness'] == 'bound-lemma':
            return self.lemma(eng)
        import kfac.preconditioner as P
        from kfac.enums import ComputeMethod
        specs = MODELS[cfg['model']]
        model, mods = kfh.build_model(specs)
        mode = cfg['mode']
        t0 = eng.fresh_int('steps0')
        eng.assume(t0 >= 0, check=False)
        if mode == 'callable':
            flr, fkl = eng.fresh_func('lr_at'), eng.fresh_func('kl_at')
            lr_arg = lambda k: flr(k)   # noqa: E731
            kl_arg = lambda k: fkl(k)   # noqa: E731
            lr, kl = flr(t0), fkl(t0)
            eng.assume(lr >= 0, check=False)
            eng.assume(kl > 0, check=False)
        else:
            lr = eng.fresh_real('lr')
            eng.assume(lr >= 0, check=False)
            lr_arg = lr
            if mode == 'none':
                kl = kl_arg = None
            else:
                kl = kl_arg = eng.fresh_real('kl_clip')
                eng.assume(kl > 0, check=False)
        damping = 0.001
        if cfg['harness'] == 'step':
            damping = eng.fresh_real('damping')
            eng.assume(damping > 0, check=False)
        try:
            eigen = cfg.get('method') == 'eigen'
            pre = P.KFACPreconditioner(model, lr=lr_arg, kl_clip=kl_arg,
                                       compute_method=ComputeMethod.EIGEN if eigen else ComputeMethod.INVERSE,
                                       compute_eigenvalue_outer_product=bool(cfg.get('prediv')),
                                       damping=damping, inv_update_steps=1)
        except (TypeError, ValueError) as e:
            eng.oblige('kl_clip-value-accepted-by-constructor', False,
                       info={'mode': mode, 'error': f'{type(e).__name__}: {e}'[:160]})
            return
        eng.oblige('kl_clip-value-accepted-by-constructor', True)
        pre.load_state_dict({'steps': t0}, compute_inverses=False)
        layers = [pre._layers[m][1] for m in mods]
        Ds, Vs = [], []
        for i, (spec, m) in enumerate(zip(specs, mods)):
            dw, db = kfh.sym_grads(eng, str(i), spec)
            kfh.set_grads(m, spec, dw, db)
            Ds.append(kfh.combined(spec, dw, db))
        if cfg['harness'] == 'unit':
            for i, (spec, layer) in enumerate(zip(specs, layers)):
                V = H.sym_list(eng, f'V{i}', (kfh.g_dim(spec), kfh.a_dim(spec)))
                Vs.append(V)
                layer.grad = H.from_list(V)
            try:
                scale = None if pre.kl_clip is None else pre._compute_grad_scale()
                for layer in layers:
                    layer.update_grad(scale=scale)
            except Exception as e:  # noqa: BLE001
                eng.oblige('no-exception-from-clipping', False, info={'error': f'{type(e).__name__}: {e}'[:160]})
                return
        else:
            st = {}
            for i, spec in enumerate(specs):
                A = H.sym_list(eng, f'A{i}', (kfh.a_dim(spec),) * 2, symmetric=True)
                G = H.sym_list(eng, f'G{i}', (kfh.g_dim(spec),) * 2, symmetric=True)
                st[str(i)] = {'A': H.from_list(A), 'G': H.from_list(G)}
            pre.load_state_dict({'steps': t0, 'layers': st}, compute_inverses=False)
            try:
                pre.step()
            except Exception as e:  # noqa: BLE001
                eng.oblige('no-exception-from-step', False, info={'error': f'{type(e).__name__}: {e}'[:160]})
                return
            log = [c for c in H.linalg_log() if c['fn'] == ('eigh' if eigen else 'inv')]
            eng.oblige('two-inverses-per-layer', len(log) == 2 * len(specs))
            if len(log) != 2 * len(specs):
                return
            # step() visits layers in reverse registration order: A then G
            for i in range(len(specs)):
                j = len(specs) - 1 - i
                if not eigen:
                    ainv, ginv = log[2 * j]['out'], log[2 * j + 1]['out']
                    Vs.append(O.mm(O.mm(ginv, Ds[i]), ainv))
                else:
                    (da, qa), (dg, qg) = log[2 * j]['out'], log[2 * j + 1]['out']
                    v1 = O.mm(O.mm(O.T(qg), Ds[i]), qa)
                    v2 = [[v1[a][b] / (O.pos(dg[a]) * O.pos(da[b]) + damping) for b in range(len(da))]
                          for a in range(len(dg))]
                    Vs.append(O.mm(O.mm(qg, v2), O.T(qa)))
        eng.witness('clipping executed')
        finals = [kfh.get_combined(m, spec) for m, spec in zip(mods, specs)]
        s = 0
        for V, D in zip(Vs, Ds):
            s = s + O.frob(V, D)
        s = s * lr * lr
        if kl is None:
            eng.oblige_all_eq('None-leaves-the-preconditioned-gradients-unscaled',
                              [p for F, V in zip(finals, Vs) for p in O.pairs(F, V)])
            return
        if eng.concrete is None:
            calls = list(eng.sqrt_log)
            if not calls:
                # the code decided the inner product is zero (or never took a root)
                eng.oblige('no-root-only-when-inner-product-is-zero', s == 0)
                nu = 1
            else:
                eng.oblige('one-square-root-per-step', len(calls) == 1)
                arg, r = calls[-1][0], calls[-1][1]
                if eng.abs_log:
                    # cheap decisive identities first
                    inner, outer = eng.abs_log[-1][0], eng.abs_log[-1][1]
                    eng.oblige_eq('sqrt-argument-is-kl/|sum<V,D>*lr^2|', inner, s)
                    eng.oblige_eq('sqrt-argument-composition', arg, kl / outer)
                else:
                    eng.oblige('zero-inner-product-gives-nu=1-not-a-division', s != 0)
                    eng.oblige_eq('sqrt-argument-is-kl/|sum<V,D>*lr^2|', arg, kl / O.sabs(s))
                nu = r if bool(r < 1) else 1   # forced by the path condition
            eng.oblige_all_eq('final-gradients-are-nu-times-V-with-one-shared-nu',
                              [(f, nu * v) for F, V in zip(finals, Vs) for f, v in O.pairs(F, V)])
        else:
            import math
            nu = 1.0 if s == 0 else min(1.0, math.sqrt(kl / abs(s)))
            eng.oblige_all_eq('final-gradients-are-nu-times-V-with-one-shared-nu',
                              [(f, nu * v) for F, V in zip(finals, Vs) for f, v in O.pairs(F, V)])
            eng.oblige('update-within-the-kl-bound', nu * nu * abs(s) <= kl * (1 + 1e-6))

    def lemma(self, eng):
        """nu = min(1, r), r >= 0, r*r = kl/u, u = |s| > 0, kl > 0  |-  0 < nu <= 1 and nu^2 u <= kl."""
        if eng.concrete is not None:
            raise symex.PathAbort('lemma')
        kl, u, r = eng.fresh_real('kl'), eng.fresh_real('u'), eng.fresh_real('r')
        eng.assume(And(kl > 0, u > 0, r >= 0, r * r * u == kl))
        nu = symex.ite(r < 1, r, 1)
        eng.witness('lemma')
        eng.oblige('nu-positive-and-at-most-1', And(nu > 0, nu <= 1))
        eng.oblige('nu^2*lr^2*|sum<V,D>|<=kl_clip', nu * nu * u <= kl)


PROP = C07()
