"""C12 -- GPT-NeoX assignment is consistent across the 3-D topology.

For every (pipe, data, model) topology within the bound, every rank of a
simulated world constructs the real GPTNeoXAssignment with symbolic layer
costs.  Data- and model-parallel groups are created on all ranks in the same
order (as DeepSpeed does); any group the assignment creates itself goes
through the simulator's new_group, which checks that every rank makes the
same sequence of calls.  The relations of the statement are obligations over
the public query methods of all ranks (topo_ref is an independent
re-derivation from the coordinates).

DeepSpeed is not installable here: `PipeModelDataParallelTopology` is the
re-implementation in vkit/shim_ds (documented ProcessTopology behaviour).
"""

from __future__ import annotations

import itertools

from vkit import harness as H
from vkit import kfh
from vkit import symex
from vkit.framework import Prop
from vkit.symex import And, Or


def topologies(limit):
    out = []
    for p in range(1, limit + 1):
        for d in range(1, limit + 1):
            for m in range(1, limit + 1):
                if p * d * m <= limit:
                    out.append((p, d, m))
    return out


def coords(p, d, m):
    """rank -> (pipe, data, model); ranks in row-major order of the axes ['pipe', 'data', 'model']"""
    return {pi * d * m + di * m + mi: (pi, di, mi) for pi in range(p) for di in range(d) for mi in range(m)}


class C12(Prop):
    id = 'C12'
    title = 'GPT-NeoX assignment is consistent across the 3-D topology'
    assumptions = ['DeepSpeed topology by re-implementation (axes pipe/data/model, row-major ranks, get_axis_comm_lists, get_coord)',
                   'costs are exact reals >= 0; torch.distributed.new_group by the simulator contract (blocking world collective, '
                   'same rank list on every rank for the k-th call)']
    stubs = ['deepspeed.runtime.pipe.topology -> vkit/shim_ds', 'torch.distributed -> simulator']
    trusted_base = ['z3 5.1.0', 'vkit.symex', 'simulator', 'topo_ref in this file']
    replay_random_tries = 0
    replay_budget = 3
    task_timeout = {'quick': 300, 'thorough': 1800}

    def bounds(self, tier):
        lim = 8 if tier == 'quick' else 16
        return {'topologies': f'all (pipe, data, model) with product <= {lim}', 'layers': '1..3 (2 factors each), symbolic costs (ties, zeros)',
                'local_rank': 'all ranks in one simulated world'}

    def configs(self, tier, seed):
        out = []
        lim = 8 if tier == 'quick' else 16
        for (p, d, m) in topologies(lim):
            w = p * d * m
            nl = 3 if w <= 4 else (2 if w <= 8 else 1)
            out.append({'harness': 'topology', 'pipe': p, 'data': d, 'model': m, 'layers': nl})
        return out

    def run(self, cfg, eng):
        import kfac.gpt_neox.assignment as GA
        from deepspeed.runtime.pipe.topology import PipeModelDataParallelTopology
        p, d, m, nl = cfg['pipe'], cfg['data'], cfg['model'], cfg['layers']
        w = p * d * m
        lnames = ['l1', 'l0', 'l2'][:nl]
        work = {}
        for ln in lnames:
            work[ln] = {}
            for f in ('A', 'G'):
                c = eng.fresh_real(f'cost_{ln}_{f}')
                if eng.concrete is None:
                    eng.assume(c >= 0, check=False)
                elif c < 0:
                    raise symex.PathAbort('cost')
                work[ln][f] = c
        co = coords(p, d, m)

        def rank(r):
            import torch.distributed as dist
            calls = []
            if not H.SHIM:
                # real torch: record this process's new_group calls (the property's own statement)
                orig_new_group = dist.new_group

                def logging_new_group(ranks=None, *a, **k):
                    calls.append(sorted(ranks) if ranks is not None else 'world')
                    return orig_new_group(ranks, *a, **k)
                dist.new_group = logging_new_group
                GA.dist.new_group = logging_new_group
            topo = PipeModelDataParallelTopology(num_pp=p, num_mp=m, num_dp=d)
            # DeepSpeed creates every data- and model-parallel group on every rank, in the same order
            dp_group = mp_group = None
            for ranks in topo.get_axis_comm_lists('data'):
                g = dist.new_group(ranks) if w > 1 else None
                if r in ranks:
                    dp_group = g
            for ranks in topo.get_axis_comm_lists('model'):
                g = dist.new_group(ranks) if w > 1 else None
                if r in ranks:
                    mp_group = g
            a = GA.GPTNeoXAssignment({ln: dict(v) for ln, v in work.items()}, local_rank=r, topology=topo,
                                     data_parallel_group=dp_group, model_parallel_group=mp_group)
            out = {'inv': {ln: {f: a.inv_worker(ln, f) for f in ('A', 'G')} for ln in lnames},
                   'factor_worker': {ln: a.factor_worker(ln, 'A') for ln in lnames},
                   'src': {ln: a.src_grad_worker(ln) for ln in lnames},
                   'is_grad_worker': {ln: a.is_grad_worker(ln) for ln in lnames},
                   'flags': (a.broadcast_gradients(), a.broadcast_inverses()),
                   'layers': tuple(a.get_layers()),
                   'recv_is_dp': a.grad_receiver_group(lnames[0]) is dp_group,
                   'peer_group_members': None, 'new_group_calls': calls}
            pg = a.pipe_parallel_peer_group
            if H.SHIM and pg is not None:
                out['peer_group_members'] = sorted(pg.ranks) if hasattr(pg, 'ranks') else 'non-member'
            return out

        import os
        os.environ['VK_FORCE_DIST'] = '1'
        try:
            wr = kfh.run_world(w, rank, eng, policy='rr')
        finally:
            os.environ.pop('VK_FORCE_DIST', None)
        eng.oblige('groups-created-by-all-ranks-in-the-same-order-and-no-stall', not wr.violations,
                   info={'violations': str(wr.violations)[:400], 'topology': (p, d, m)})
        if not H.SHIM and len(wr.results) == w:
            seqs = [wr.results[r]['new_group_calls'] for r in range(w)]
            eng.oblige('groups-created-by-all-ranks-in-the-same-order-and-no-stall', all(s_ == seqs[0] for s_ in seqs),
                       info={'sequences': str({r: seqs[r] for r in range(w)})[:400]})
        eng.oblige('no-rank-raises', not wr.errors,
                   info={'errors': {str(k): f'{type(v).__name__}: {v}'[:200] for k, v in wr.errors.items()}})
        if wr.violations or wr.errors:
            return
        eng.witness('all ranks constructed')
        res = wr.results
        total = {ln: work[ln]['A'] + work[ln]['G'] for ln in lnames}
        for stage in range(p):
            peers = [r for r in range(w) if co[r][0] == stage]
            r0 = peers[0]
            for r in peers:
                eng.oblige('stage-peers-agree-on-the-inverse-workers', res[r]['inv'] == res[r0]['inv'], info={'rank': r})
            inv = {ln: res[r0]['inv'][ln]['A'] for ln in lnames}
            for ln in lnames:
                eng.oblige('one-inverse-worker-per-layer-inside-the-stage',
                           res[r0]['inv'][ln]['A'] == res[r0]['inv'][ln]['G'] and inv[ln] in peers, info={'layer': ln})
            if not all(inv[ln] in peers for ln in lnames):
                return
            # least-loaded greedy over the stage's ranks in non-increasing cost order (any tie-break)
            alts = []
            for order in itertools.permutations(lnames):
                loads = {r: 0 for r in peers}
                cs = [total[order[i]] >= total[order[i + 1]] for i in range(len(order) - 1)]
                for ln in order:
                    for r in peers:
                        if r != inv[ln]:
                            cs.append(loads[inv[ln]] <= loads[r])
                    loads[inv[ln]] = loads[inv[ln]] + total[ln]
                alts.append(And(*cs) if cs else True)
            eng.oblige('inverse-workers-are-a-valid-least-loaded-greedy-execution', Or(*alts), info={'stage': stage, 'inv': str(inv)})
            for r in peers:
                _, di, mi = co[r]
                for ln in lnames:
                    iw = inv[ln]
                    _, idi, imi = co[iw]
                    fw = res[r]['factor_worker'][ln]
                    # own model-parallel group (same pipe, same data) and the inverse worker's data-parallel group (same pipe, same model)
                    eng.oblige('factor-worker-in-own-model-group-and-inverse-workers-data-group',
                               fw in co and co[fw] == (stage, di, imi), info={'rank': r, 'layer': ln, 'fw': fw})
                    src = res[r]['src'][ln]
                    eng.oblige('gradient-source-in-own-data-group-with-the-same-model-shard',
                               src in co and co[src] == (stage, idi, mi), info={'rank': r, 'layer': ln, 'src': src})
                    eng.oblige('gradient-workers-are-exactly-the-model-peers-of-the-inverse-worker',
                               res[r]['is_grad_worker'][ln] == (di == idi), info={'rank': r, 'layer': ln})
                eng.oblige('mem-opt-flags-and-receiver-group', res[r]['flags'] == (True, False) and res[r]['recv_is_dp']
                           and set(res[r]['layers']) == set(lnames))
                if res[r]['peer_group_members'] not in (None,):
                    eng.oblige('peer-group-is-the-stage', res[r]['peer_group_members'] == sorted(peers),
                               info={'rank': r, 'members': str(res[r]['peer_group_members'])})


PROP = C12()
