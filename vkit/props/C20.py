"""C20 -- tracing is transparent and its statistics are exact.

`kfac.tracing.time` is replaced by a clock that returns arbitrary
non-decreasing symbolic instants; traced functions return symbolic values or
raise.  The call sequence (which function, raise or return, clears) is
enumerated; clock readings, return values, `average` and `max_history` are
symbolic.
"""

from __future__ import annotations

import itertools

from vkit import symex
from vkit.framework import Prop
from vkit.symex import And


class Marker(Exception):
    pass


class Clock:
    def __init__(self, eng):
        self.eng = eng
        self.n = 0
        self.last = None
        self.readings = []

    def time(self):
        t = self.eng.fresh_real(f'clock_{self.n}')
        self.n += 1
        if self.last is not None:
            self.eng.assume(t >= self.last, check=False)
        self.last = t
        self.readings.append(t)
        return t

    def __getattr__(self, name):
        import time as _t
        return getattr(_t, name)


class C20(Prop):
    id = 'C20'
    title = 'Tracing is transparent and its statistics are exact'
    assumptions = ['clock readings are arbitrary non-decreasing reals (A-real)',
                   'max_history is None or an integer >= 1 (the statement is silent about <= 0)']
    stubs = ['kfac.tracing.time -> symbolic non-decreasing clock',
             'torch.distributed.barrier -> simulator (sync=True runs in a 2-rank world)']
    trusted_base = ['z3 5.1.0', 'vkit.symex', 'reference statistics in this file']

    def bounds(self, tier):
        return {'functions': '<= 2 (3 thorough)', 'events': 4 if tier == 'quick' else 5,
                'event_kinds': 'call f_i returning, call f_i raising, clear_trace',
                'queries': 'get_trace(average, max_history) after every event; average and max_history symbolic'}

    def configs(self, tier, seed):
        nf = 2 if tier == 'quick' else 3
        n = 4 if tier == 'quick' else 5
        alphabet = [('ret', i) for i in range(nf)] + [('raise', 0), ('clear', None)]
        out = []
        seqs = list(itertools.product(range(len(alphabet)), repeat=n))
        # every sequence of shorter length is a prefix of one of these
        if tier == 'quick':
            seqs = seqs[::3]
        else:
            from vkit.framework import pick
            seqs = [s_ for s_ in seqs if pick(s_, 8, seed)]
        for s in seqs:
            out.append({'harness': 'trace', 'events': [list(alphabet[i]) for i in s], 'sync': False})
        for s in seqs[::97][:6]:
            out.append({'harness': 'trace', 'events': [list(alphabet[i]) for i in s], 'sync': True})
        return out

    def run(self, cfg, eng):
        import torch
        if cfg['sync']:
            import torch.distributed as dist
            from vkit import harness as H
            if not H.SHIM:
                raise symex.PathAbort('sync replay is not supported on real torch')
            sim = dist.Sim(2)
            res = {}

            def rank(r):
                if r == 0:
                    self.body(cfg, eng, sim)
                else:
                    # the peer only takes part in the barriers
                    n = sum(2 for e in cfg['events'] if e[0] in ('ret', 'raise'))
                    # a raising call never reaches the second barrier
                    n -= sum(1 for e in cfg['events'] if e[0] == 'raise')
                    for _ in range(n):
                        dist.barrier()
            sim.run(rank)
            sim.finish_checks()
            eng.oblige('sync-barriers-match', not sim.violations, info={'v': str(sim.violations[:2])})
        else:
            self.body(cfg, eng, None)

    def body(self, cfg, eng, sim):
        import kfac.tracing as T
        old_time = T.time
        clock = Clock(eng)
        T.time = clock
        T.clear_trace()
        try:
            self._body(cfg, eng, T, clock, sim)
        finally:
            T.time = old_time
            T.clear_trace()

    def _body(self, cfg, eng, T, clock, sim):
        sync = cfg['sync']
        names = ['alpha', 'beta', 'gamma']
        funcs = []
        calls_seen = []
        for i, nm in enumerate(names):
            def make(nm):
                def f(*a, **k):
                    calls_seen.append((nm, a, k))
                    if k.get('boom'):
                        raise Marker(nm)
                    return k['ret']
                f.__name__ = nm
                return f
            raw = make(nm)
            funcs.append((raw, T.trace(sync=sync)(raw)))
        ref: dict = {}       # name -> list of durations (reference)
        order: list = []     # insertion order of names
        for ei, (kind, fi) in enumerate(cfg['events']):
            if kind == 'clear':
                T.clear_trace()
                ref.clear()
                order.clear()
            else:
                raw, traced = funcs[fi or 0]
                nm = raw.__name__
                retv = eng.fresh_real(f'ret_{ei}')
                argv = eng.fresh_real(f'arg_{ei}')
                n0 = clock.n
                calls_seen.clear()
                if kind == 'ret':
                    out = traced(argv, 7, ret=retv, tag=ei)
                    eng.oblige('returns-the-undecorated-result', out is retv)
                    eng.oblige('arguments-passed-through',
                               len(calls_seen) == 1 and calls_seen[0][1] == (argv, 7)
                               and calls_seen[0][2] == {'ret': retv, 'tag': ei})
                    eng.oblige('clock-read-twice-per-call', clock.n == n0 + 2)
                    if clock.n == n0 + 2:
                        d = clock.readings[n0 + 1] - clock.readings[n0]
                        if nm not in ref:
                            ref[nm] = []
                            order.append(nm)
                        ref[nm].append(d)
                else:
                    raised = None
                    try:
                        traced(argv, ret=retv, boom=True)
                    except Marker as e:
                        raised = e
                    eng.oblige('raises-what-the-function-raises',
                               raised is not None and raised.args == (nm,))
            # statistics after every event
            avg = eng.fresh_bool(f'average_{ei}')
            use_hist = eng.fresh_bool(f'use_max_history_{ei}')
            if use_hist:
                mh = eng.fresh_int(f'max_history_{ei}')
                eng.assume(mh >= 1, check=False)
            else:
                mh = None
            avg_c = bool(avg)  # fork: python truthiness of the flag
            got = T.get_trace(average=avg_c, max_history=mh)
            eng.oblige('one-entry-per-traced-function-name', list(got.keys()) == order,
                       info={'got': str(list(got.keys())), 'want': str(order)})
            if list(got.keys()) != order:
                return
            for nm in order:
                samples = ref[nm]
                n = len(samples)
                # reference: window = last min(n, mh) samples
                if mh is None:
                    k = n
                else:
                    k = None
                    for cand in range(1, n + 1):
                        if (mh == cand) if cand < n else (mh >= n):
                            k = cand
                            break
                    if k is None:
                        raise symex.PathAbort('unreachable window')
                win = samples[n - k:]
                tot = 0
                for s in win:
                    tot = tot + s
                want = tot / k if avg_c else tot
                eng.oblige_eq('statistic-is-sum-or-mean-of-the-last-max_history-samples',
                              got[nm], want, info={'name': nm, 'n': n, 'k': k, 'avg': avg_c})
        T.clear_trace()
        eng.oblige('clear-removes-every-trace', T.get_trace() == {})
        eng.witness('history done')


PROP = C20()
