"""Backend-agnostic scenarios for validating the symtorch shim against torch.

Each scenario takes (torch-like module T, rnd) and returns a JSON-able
structure of (values, shape, dtype tag, contiguity).  The same file runs under
/venv/bin/python with the real torch + real kfac and under python3-vt with the
shim + the kfac sources loaded on it; results must agree.
"""

from __future__ import annotations

import random
from fractions import Fraction


def describe(t):
    if t is None:
        return None
    if isinstance(t, (list, tuple)):
        return [describe(x) for x in t]
    if isinstance(t, (int, bool, str)):
        return t
    if isinstance(t, (float, Fraction)):
        return float(t)
    vals = t.tolist() if not hasattr(t, 'a') else t.a.tolist()
    return {'v': _f(vals), 'shape': list(t.shape), 'dtype': str(t.dtype).replace('torch.', ''),
            'contig': bool(t.is_contiguous())}


def _f(x):
    if isinstance(x, list):
        return [_f(y) for y in x]
    return float(x)


def rt(T, rnd, *shape, dtype=None):
    n = 1
    for s in shape:
        n *= s
    vals = [Fraction(rnd.randint(-8, 8), 4) for _ in range(n)]

    def build(sh, it):
        if not sh:
            return next(it)
        return [build(sh[1:], it) for _ in range(sh[0])]
    data = build(list(shape), iter(vals))
    if hasattr(T, 'Tensor') and getattr(T, '__version__', '').endswith('symtorch'):
        import numpy as np
        return T.Tensor(np.array(data, dtype=object).reshape(shape), dtype or T.float32)

    def fl(d):
        return [fl(x) for x in d] if isinstance(d, list) else float(d)
    return T.tensor(fl(data), dtype=dtype or T.float32)


def expect_raises(fn, exc):
    try:
        fn()
    except exc as e:
        return 'raised:' + type(e).__name__
    return 'no-raise'


def op_scenarios(T, seed):
    rnd = random.Random(seed)
    out = {}
    a, b = rt(T, rnd, 3, 4), rt(T, rnd, 3, 4)
    sq = rt(T, rnd, 4, 4)
    v, w = rt(T, rnd, 3), rt(T, rnd, 4)
    out['arith'] = describe([a + b, a - b, a * b, a / (b * b + 1), 2 * a, a * 0.5, (1 / 3) * a, a / 4,
                             1 - a, -a, (sq + sq.t()) / 2.0, a + v.view(3, 1), a * w])
    out['matmul'] = describe([a @ sq, a.t() @ b, sq @ sq.t() @ sq])
    out['cat'] = describe([T.cat([a, b], 0), T.cat([a, b], 1), T.cat([a, v.view(-1, 1)], 1),
                           T.cat([a, a.new_ones([3, 1])], dim=-1)])
    out['diag'] = describe([T.diag(v), T.diag(sq), T.diag(v.new(3).fill_(1)), T.diag(sq.new(4).fill_(0.25))])
    out['outer'] = describe([T.outer(v, w), T.outer(v, w) + 0.1, 1 / (T.outer(v, w) * T.outer(v, w) + 0.5)])
    out['clamp'] = describe([T.clamp(a, min=0.0), T.clamp(v, min=0.25), T.clamp(a, min=-1, max=1)])
    out['views'] = describe([a.t(), a.transpose(0, 1), a.view(-1), a.view(4, 3), a.reshape(2, 6), a.t().reshape(-1),
                             a.t().contiguous(), a[:, :-1], a[:, -1:], a[:, -1:].view(3), a[:, :-1].view(3, 3),
                             a[1], a[1:, 1:3], a.view(3, 2, 2)[:, :, 0], a.t()[1:3].contiguous()])
    out['view_fail'] = [expect_raises(lambda: a.t().view(-1), RuntimeError),
                        expect_raises(lambda: a.view(5, 5), RuntimeError),
                        expect_raises(lambda: a[:, 1:3].view(-1), RuntimeError),
                        expect_raises(lambda: a @ b, RuntimeError),
                        expect_raises(lambda: T.cat([a, v], 0), RuntimeError)]
    x4 = rt(T, rnd, 2, 2, 5, 4)
    u = x4.unfold(2, 2, 1).unfold(3, 3, 2)
    out['unfold'] = describe([x4.unfold(2, 3, 2), u, u.transpose(1, 2).transpose(2, 3).contiguous()])
    p = T.nn.functional.pad(x4, (1, 1, 2, 0)).data
    out['pad'] = describe([p, T.nn.functional.pad(x4, (0, 1, 1, 0))])
    y = x4.unfold(2, 2, 2).unfold(3, 2, 1)
    y = y.transpose_(1, 2).transpose_(2, 3).contiguous()
    out['patches'] = describe([y.view(y.size(0), y.size(1), y.size(2), y.size(3) * y.size(4) * y.size(5))])
    idx = T.triu_indices(4, 4)
    idx1 = T.triu_indices(4, 4, 1)
    tri = sq[idx[0], idx[1]]
    dst = tri.new_empty([4, 4])
    dst[idx[0], idx[1]] = tri
    dst.transpose(0, 1)[idx1[0], idx1[1]] = dst[idx1[0], idx1[1]]
    out['triu'] = describe([idx, idx1, T.triu_indices(3, 5), tri, dst])
    out['split'] = describe(list(T.split(a, 2, dim=1)) + list(T.split(a, 1, dim=0)) +
                            [c.contiguous() for c in T.split(sq, 2, dim=-1)])
    out['reduce'] = describe([a.sum(), (a * b).sum(), a.sum().item(), a.nelement(), a.element_size(),
                              a.size(0), list(a.size()), len(a.shape)])
    h = a.to(T.float16)
    out['dtype'] = describe([h, h.to(T.float32), a.to(None), h * a, h + 1.5, (h.to(T.float32) @ sq).to(h.dtype),
                             T.empty_like(h).dtype == h.dtype, h.new_ones([2]).dtype == h.dtype,
                             T.zeros_like(a), a.clone(), h.element_size(), T.cat([h, h], 0)])
    fl = T._utils._flatten_dense_tensors([a, v, sq])
    un = T._utils._unflatten_dense_tensors(fl * 2, [a, v, sq])
    out['flatten'] = describe([fl] + list(un))
    out['misc'] = describe([a.new(3).fill_(1), a.new_empty([2, 3]).shape == (2, 3), T.empty(3, 2).shape == (3, 2),
                            T.equal(a, a.clone()), T.equal(a, b), sq.narrow(0, 1, 2), fl.narrow(0, 2, 4).view_as(sq[:2, :2])])
    return out


def kfac_scenarios(T, K, seed):
    """K: namespace with the kfac modules loaded on backend T."""
    rnd = random.Random(seed + 1)
    out = {}
    U = K['utils']
    a, b = rt(T, rnd, 5, 3), rt(T, rnd, 5, 3)
    out['get_cov'] = describe([U.get_cov(a), U.get_cov(a, None, 4), U.get_cov(a, b), U.get_cov(a, b, 5),
                               U.append_bias_ones(a), U.append_bias_ones(rt(T, rnd, 2, 3, 2))])
    D = K['distributed']
    for n in (1, 2, 4, 5):
        s = rt(T, rnd, n, n)
        s = (s + s.t()) / 2
        out[f'triu_{n}'] = describe([D.get_triu(s), D.fill_triu([n, n], D.get_triu(s)),
                                     D.fill_triu([n, n], D.get_triu(s.t()))])
    M = K['modules']
    for bias in (True, False):
        lin = T.nn.Linear(3, 2, bias=bias)
        set_params(T, lin, rnd)
        h = M.LinearModuleHelper(lin)
        lin.weight.grad = rt(T, rnd, 2, 3)
        if bias:
            lin.bias.grad = rt(T, rnd, 2)
        g = h.get_grad()
        h.set_grad(g * 2)
        out[f'linear_{bias}'] = describe([h.a_factor_shape, h.g_factor_shape, h.get_a_factor(rt(T, rnd, 4, 3)),
                                          h.get_a_factor(rt(T, rnd, 2, 2, 3)), h.get_g_factor(rt(T, rnd, 4, 2)),
                                          g, h.get_grad(), lin.weight.grad, h.has_bias()])
    for (cin, cout, k, s, p, bias, hh, ww) in [(2, 3, (2, 2), (1, 1), (0, 0), True, 4, 4),
                                               (1, 2, (3, 2), (2, 1), (1, 0), False, 5, 4),
                                               (2, 2, (2, 3), (1, 2), (0, 1), True, 5, 6)]:
        conv = T.nn.Conv2d(cin, cout, k, s, p, bias=bias)
        set_params(T, conv, rnd)
        h = M.Conv2dModuleHelper(conv)
        x = rt(T, rnd, 2, cin, hh, ww)
        pt = h._extract_patches(x)
        oh, ow = pt.size(1), pt.size(2)
        conv.weight.grad = rt(T, rnd, cout, cin, *k)
        if bias:
            conv.bias.grad = rt(T, rnd, cout)
        g = h.get_grad()
        h.set_grad(g + 1)
        out[f'conv_{cin}{cout}{k}{s}{p}{bias}'] = describe([
            h.a_factor_shape, h.g_factor_shape, pt, h.get_a_factor(x), h.get_g_factor(rt(T, rnd, 2, cout, oh, ow)),
            g, h.get_grad(), conv.weight.grad])
    # one full step per compute method, hooks driven directly
    P = K['preconditioner']
    E = K['enums']
    for method, prediv in (('INVERSE', False), ('EIGEN', False), ('EIGEN', True)):
        lin1 = T.nn.Linear(3, 2, bias=True)
        lin2 = T.nn.Linear(2, 2, bias=False)
        model = T.nn.Sequential(lin1, lin2)
        for m in (lin1, lin2):
            set_params(T, m, rnd)
        p = P.KFACPreconditioner(model, compute_method=E.ComputeMethod[method], damping=0.25,
                                 compute_eigenvalue_outer_product=prediv, kl_clip=0.05, lr=0.5,
                                 factor_decay=0.75, factor_update_steps=1, inv_update_steps=2)
        res = []
        for it in range(3):
            for m, (i, o) in ((lin1, (3, 2)), (lin2, (2, 2))):
                fire(m, rt(T, rnd, 4, i), rt(T, rnd, 4, o))
                m.weight.grad = rt(T, rnd, o, i)
                if m.bias is not None:
                    m.bias.grad = rt(T, rnd, o)
            p.step()
            res.append([lin1.weight.grad, lin1.bias.grad, lin2.weight.grad])
        sd = p.state_dict()
        res.append([sd['steps'], sd['layers']['0']['A'], sd['layers']['0']['G'], sd['layers']['1']['A']])
        mu = p.memory_usage()
        res.append([mu[k] for k in sorted(mu)])
        out[f'step_{method}_{prediv}'] = describe(res)
    return out


def set_params(T, m, rnd):
    for p in m.parameters():
        new = rt(T, rnd, *list(p.shape))
        if hasattr(p, 'a'):
            p.a = new.a
        else:
            with T.no_grad():
                p.copy_(new)


def fire(m, x, gy):
    for h in list(m._forward_pre_hooks.values()):
        h(m, (x,))
    for h in list(m._backward_hooks.values()):
        h(m, (None,), (gy,))
