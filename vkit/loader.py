"""Import the real /repo/kfac sources, unmodified, on top of the symtorch shim."""

from __future__ import annotations

import hashlib
import importlib
import os
import sys
import threading
import types
import warnings

HERE = os.path.dirname(os.path.abspath(__file__))
SHIM = os.path.join(HERE, 'shim')
SHIM_DS = os.path.join(HERE, 'shim_ds')   # DeepSpeed stand-in (also used by replays on the real torch)
REPO = os.environ.get('VERIF_REPO', '/repo')

_loaded: dict = {}
CALLS: set = set()


def repo_path() -> str:
    return os.environ.get('VERIF_REPO', '/repo')


def setup_shim():
    """Make `import torch` / `import deepspeed` resolve to the shim."""
    root = os.path.dirname(HERE)
    if root not in sys.path:
        sys.path.insert(0, root)
    if SHIM not in sys.path:
        sys.path.insert(0, SHIM)
    if SHIM_DS not in sys.path:
        sys.path.insert(0, SHIM_DS)
    import torch  # noqa: F401
    if not getattr(torch, '__version__', '').endswith('symtorch'):
        raise RuntimeError('real torch is importable here; the shim must come first')
    return torch


def load_kfac(names=None):
    """Import kfac sub-modules from the working tree without kfac/__init__."""
    if 'kfac' in _loaded:
        return _loaded['kfac']
    setup_shim()
    repo = repo_path()
    pkg = types.ModuleType('kfac')
    pkg.__path__ = [os.path.join(repo, 'kfac')]  # namespace-like
    pkg.__package__ = 'kfac'
    sys.modules['kfac'] = pkg
    mods = names or [
        'kfac.enums', 'kfac.warnings', 'kfac.distributed', 'kfac.assignment',
        'kfac.layers.utils', 'kfac.layers.modules', 'kfac.layers.base',
        'kfac.layers.eigen', 'kfac.layers.inverse', 'kfac.layers.register',
        'kfac.base_preconditioner', 'kfac.preconditioner', 'kfac.scheduler',
        'kfac.hyperparams', 'kfac.tracing',
        'kfac.gpt_neox.mpu', 'kfac.gpt_neox.modules', 'kfac.gpt_neox.layer',
        'kfac.gpt_neox.assignment', 'kfac.gpt_neox.preconditioner',
    ]
    with warnings.catch_warnings():
        warnings.simplefilter('ignore')
        for m in mods:
            importlib.import_module(m)
    _apply_overrides()
    _loaded['kfac'] = pkg
    return pkg


OVERRIDES = [
    ('kfac.scheduler', 'int', 'sym_int: python truncation on symbolic numbers'),
    ('kfac.distributed', 'int', 'sym_int'),
    ('kfac.assignment', 'int', 'sym_int'),
    ('kfac.base_preconditioner', 'math', 'SymMath: sqrt(x) = fresh r, r>=0, r*r=x, obligation x>=0'),
    ('kfac.gpt_neox.preconditioner', 'os', 'MemOS: in-memory file system'),
]


def _apply_overrides():
    from vkit import symex
    import torch.serialization as ser
    sm = sys.modules
    for name in ('kfac.scheduler', 'kfac.distributed', 'kfac.assignment'):
        if name in sm:
            sm[name].int = symex.sym_int
    if 'kfac.base_preconditioner' in sm:
        sm['kfac.base_preconditioner'].math = symex.SymMath()
    if 'kfac.gpt_neox.preconditioner' in sm:
        sm['kfac.gpt_neox.preconditioner'].os = ser.MemOS()


def source_hashes() -> dict:
    out = {}
    root = os.path.join(repo_path(), 'kfac')
    for name, m in sorted(sys.modules.items()):
        f = getattr(m, '__file__', None)
        if f and f.startswith(root):
            with open(f, 'rb') as fh:
                out[os.path.relpath(f, repo_path())] = hashlib.sha256(fh.read()).hexdigest()[:16]
    return out


# ---------------------------------------------------------------- call log
def _prof(frame, event, arg):
    if event == 'call':
        fn = frame.f_code.co_filename
        if fn.startswith(_PROF_ROOT[0]):
            CALLS.add(os.path.relpath(fn, _PROF_ROOT[1]) + ':' + frame.f_code.co_qualname
                      if hasattr(frame.f_code, 'co_qualname')
                      else os.path.relpath(fn, _PROF_ROOT[1]) + ':' + frame.f_code.co_name)


_PROF_ROOT = ['', '']


def profile_on():
    _PROF_ROOT[0] = os.path.join(repo_path(), 'kfac')
    _PROF_ROOT[1] = repo_path()
    sys.setprofile(_prof)
    threading.setprofile(_prof)


def profile_off():
    sys.setprofile(None)
    threading.setprofile(None)
