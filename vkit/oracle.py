"""Reference mathematics over nested python lists of scalars.

Written from the definitions of K-FAC / KAISA, never calling into `kfac`.
Scalars may be Fraction, float or symex.SymNum.
"""

from __future__ import annotations

from fractions import Fraction

from vkit import symex


def zeros(n, m):
    return [[0 for _ in range(m)] for _ in range(n)]


def eye(n):
    return [[1 if i == j else 0 for j in range(n)] for i in range(n)]


def T(a):
    return [list(r) for r in zip(*a)] if a else []


def mm(a, b):
    n, k, m = len(a), len(b), len(b[0])
    out = []
    for i in range(n):
        row = []
        for j in range(m):
            acc = 0
            for t in range(k):
                acc = acc + a[i][t] * b[t][j]
            row.append(acc)
        out.append(row)
    return out


def add(a, b):
    return [[x + y for x, y in zip(r, s)] for r, s in zip(a, b)]


def sub(a, b):
    return [[x - y for x, y in zip(r, s)] for r, s in zip(a, b)]


def scale(c, a):
    return [[c * x for x in r] for r in a]


def add_diag(a, lam):
    return [[a[i][j] + (lam if i == j else 0) for j in range(len(a))] for i in range(len(a))]


def outer_sum(rows_a, rows_b):
    """sum_r a_r^T b_r  (rows_a: R x p, rows_b: R x q) -> p x q"""
    p, q = len(rows_a[0]), len(rows_b[0])
    out = zeros(p, q)
    for ra, rb in zip(rows_a, rows_b):
        for i in range(p):
            for j in range(q):
                out[i][j] = out[i][j] + ra[i] * rb[j]
    return out


def second_moment(rows):
    """(1/R) sum_r x_r x_r^T"""
    r = len(rows)
    s = outer_sum(rows, rows)
    return [[v / r for v in row] for row in s]


def dot(a, b):
    acc = 0
    for x, y in zip(a, b):
        acc = acc + x * y
    return acc


def frob(a, b):
    acc = 0
    for r, s in zip(a, b):
        for x, y in zip(r, s):
            acc = acc + x * y
    return acc


def pos(x):
    """max(x, 0) without forking."""
    if isinstance(x, symex.SymNum):
        return symex.sym_max(x, 0)
    return x if x > 0 else 0


def sabs(x):
    if isinstance(x, symex.SymNum):
        return abs(x)
    return abs(x)


def pairs(a, b):
    """flatten two equally shaped nested lists into a list of pairs."""
    if isinstance(a, list):
        if not isinstance(b, list) or len(a) != len(b):
            raise ValueError(f'shape mismatch {_shape(a)} vs {_shape(b)}')
        out = []
        for x, y in zip(a, b):
            out.extend(pairs(x, y))
        return out
    return [(a, b)]


def _shape(x):
    s = []
    while isinstance(x, list):
        s.append(len(x))
        x = x[0] if x else None
    return tuple(s)


shape = _shape


# ---- convolution reference (explicit index formulas) -----------------------
def conv_out_size(h, k, s, p):
    return (h + 2 * p - k) // s + 1


def im2col(x, kh, kw, sh, sw, ph, pw):
    """x: N x C x H x W -> rows[(n, i, j)] = [x[n, c, i*sh+a-ph, j*sw+b-pw]
    for c, a, b in C x kh x kw order]  (zero outside)."""
    n, c = len(x), len(x[0])
    h, w = len(x[0][0]), len(x[0][0][0])
    oh, ow = conv_out_size(h, kh, sh, ph), conv_out_size(w, kw, sw, pw)
    rows = []
    for nn in range(n):
        for i in range(oh):
            for j in range(ow):
                row = []
                for cc in range(c):
                    for a in range(kh):
                        for b in range(kw):
                            y, xx = i * sh + a - ph, j * sw + b - pw
                            row.append(x[nn][cc][y][xx] if 0 <= y < h and 0 <= xx < w else Fraction(0))
                rows.append(row)
    return rows, oh, ow


def conv_gy_rows(gy):
    """gy: N x O x OH x OW -> rows[(n, i, j)] = [gy[n, o, i, j] for o]"""
    n, o = len(gy), len(gy[0])
    oh, ow = len(gy[0][0]), len(gy[0][0][0])
    return [[gy[nn][oo][i][j] for oo in range(o)]
            for nn in range(n) for i in range(oh) for j in range(ow)]
