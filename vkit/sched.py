"""All-interleavings analysis of collective traces (C03).

The per-rank event sequences extracted from the real code by the simulator are
a function of (configuration, rank, path) only -- the code never polls, reads
a clock or branches on arrival order (re-checked by `ast_scan`).  Given the
sequences:

* IDL (quick): one integer timestamp per event; program order; a wait on
  collective c comes after every member's issue of c.  sat <=> the wait-for
  relation is acyclic <=> a complete execution exists; enabledness is monotone
  (an issue is always enabled, a wait stays enabled once enabled), hence every
  schedule completes.
* BMC (thorough): the scheduler choice at each of T = sum |seq_r| steps is a
  symbolic integer; we ask for a reachable state in which some rank is
  unfinished and no rank is enabled.  unsat => no schedule stalls, within T.
"""

from __future__ import annotations

import ast
import os
import time

try:
    import z3
except ImportError:  # replay interpreter
    z3 = None


def traces(events, world):
    """-> per-rank list of ('issue'|'wait', cid, members)"""
    seqs = {r: [] for r in range(world)}
    members: dict = {}
    for e in sorted(events, key=lambda e: (e['rank'], e['seq'])):
        r = e['rank']
        if e['kind'] == 'new_group':
            continue
        cid = e.get('cid')
        if cid is None:
            continue
        if e.get('phase') == 'issue':
            seqs[r].append(('issue', cid))
            members.setdefault(cid, set(e['group']))
        elif e.get('phase') == 'wait':
            seqs[r].append(('wait', cid))
    return seqs, members


def structural(seqs, members):
    """every member issues every collective exactly once; nobody else does"""
    problems = []
    issued: dict = {}
    for r, s in seqs.items():
        for kind, cid in s:
            if kind == 'issue':
                issued.setdefault(cid, []).append(r)
    for cid, rs in issued.items():
        if sorted(rs) != sorted(members[cid]):
            problems.append(f'collective {cid}: issued by {sorted(rs)}, members {sorted(members[cid])}')
    for r, s in seqs.items():
        for kind, cid in s:
            if kind == 'wait' and cid not in issued:
                problems.append(f'rank {r} waits on {cid} which nobody issued')
    return problems


def idl(seqs, members):
    """-> ('sat'|'unsat'|'unknown', seconds, n_constraints)"""
    s = z3.Solver()
    s.set('timeout', 30000)
    t = {}
    n = 0
    for r, seq in seqs.items():
        prev = None
        for i, (kind, cid) in enumerate(seq):
            v = z3.Int(f't_{r}_{i}')
            t[(r, i)] = v
            if prev is not None:
                s.add(prev < v)
                n += 1
            prev = v
    issue_at = {}
    for r, seq in seqs.items():
        for i, (kind, cid) in enumerate(seq):
            if kind == 'issue':
                issue_at[(cid, r)] = t[(r, i)]
    for r, seq in seqs.items():
        for i, (kind, cid) in enumerate(seq):
            if kind == 'wait':
                for m in members.get(cid, ()):
                    if (cid, m) not in issue_at:
                        return 'unsat', 0.0, n
                    if m != r:
                        s.add(t[(r, i)] > issue_at[(cid, m)])
                        n += 1
    t0 = time.time()
    res = s.check()
    return str(res), time.time() - t0, n


def bmc(seqs, members, max_events=64):
    """-> (verdict, seconds): 'unsat' = no reachable stall."""
    ranks = sorted(seqs)
    total = sum(len(seqs[r]) for r in ranks)
    if total == 0:
        return 'unsat', 0.0
    if total > max_events:
        return 'skipped', 0.0
    s = z3.Solver()
    s.set('timeout', 240000)
    T = total
    pc = [[z3.Int(f'pc_{r}_{k}') for r in ranks] for k in range(T + 1)]
    rho = [z3.Int(f'rho_{k}') for k in range(T)]
    idx = {}
    for ri, r in enumerate(ranks):
        for i, (kind, cid) in enumerate(seqs[r]):
            if kind == 'issue':
                idx[(cid, r)] = i

    def enabled(ri, k):
        r = ranks[ri]
        conds = []
        for i, (kind, cid) in enumerate(seqs[r]):
            if kind == 'issue':
                conds.append(pc[k][ri] == i)
            else:
                need = [pc[k][ranks.index(m)] > idx[(cid, m)] for m in members.get(cid, ()) if (cid, m) in idx]
                missing = [m for m in members.get(cid, ()) if (cid, m) not in idx]
                if missing:
                    continue   # can never be enabled
                conds.append(z3.And(pc[k][ri] == i, *need))
        return z3.Or(conds) if conds else z3.BoolVal(False)

    for ri in range(len(ranks)):
        s.add(pc[0][ri] == 0)
    stall = []
    for k in range(T + 1):
        unfinished = z3.Or([pc[k][ri] < len(seqs[ranks[ri]]) for ri in range(len(ranks))])
        none = z3.And([z3.Not(enabled(ri, k)) for ri in range(len(ranks))])
        stall.append(z3.And(unfinished, none))
        if k < T:
            s.add(z3.And(rho[k] >= 0, rho[k] < len(ranks)))
            for ri in range(len(ranks)):
                move = z3.And(rho[k] == ri, enabled(ri, k))
                s.add(pc[k + 1][ri] == z3.If(move, pc[k][ri] + 1, pc[k][ri]))
    s.add(z3.Or(stall))
    t0 = time.time()
    res = s.check()
    return str(res), time.time() - t0


def ast_scan(repo):
    """The event sequences are schedule independent only if the code never
    polls futures, reads clocks or selects on arrival order (outside tracing)."""
    bad = []
    root = os.path.join(repo, 'kfac')
    for dp, _, fs in os.walk(root):
        for f in fs:
            if not f.endswith('.py') or f == 'tracing.py':
                continue
            p = os.path.join(dp, f)
            tree = ast.parse(open(p).read())
            for node in ast.walk(tree):
                if isinstance(node, ast.Attribute) and node.attr in ('done', 'is_completed', 'wait_any', 'poll'):
                    bad.append(f'{os.path.relpath(p, repo)}:{node.lineno}: .{node.attr}')
                if isinstance(node, ast.Attribute) and isinstance(node.value, ast.Name) and node.value.id == 'time':
                    bad.append(f'{os.path.relpath(p, repo)}:{node.lineno}: time.{node.attr}')
    return bad
