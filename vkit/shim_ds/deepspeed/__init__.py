"""Re-implementation of the two DeepSpeed names kfac.gpt_neox imports.

DeepSpeed cannot be installed in this sandbox.  This follows DeepSpeed's
documented ProcessTopology behaviour: axes ['pipe', 'data', 'model'], ranks in
row-major order of the coordinates, `get_axis_comm_lists`, `get_coord`,
`world_size`; `PipelineModule` is a Module that knows its topology.
"""
from . import pipe, runtime  # noqa: F401
