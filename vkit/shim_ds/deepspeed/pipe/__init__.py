import torch


class PipelineModule(torch.nn.Module):
    """A Module that holds this stage's layers and knows the 3-D topology."""

    def __init__(self, layers=None, num_stages=None, topology=None, **kw):
        super().__init__()
        self._topo = topology
        self.num_stages = num_stages if num_stages is not None else (
            topology.get_dim('pipe') if topology is not None else 1)
        for i, m in enumerate(layers or []):
            self.add_module(str(i), m)

    def topology(self):
        return self._topo
