from collections import namedtuple
from itertools import product


class ProcessTopology:
    def __init__(self, axes, dims):
        self.axes = list(axes)
        self.dims = list(dims)
        self.ProcessCoord = namedtuple('ProcessCoord', axes)
        self.mapping = {}
        for global_rank, coord in enumerate(product(*[range(d) for d in dims])):
            key = self.ProcessCoord(**{a: coord[self.axes.index(a)] for a in self.axes})
            self.mapping[key] = global_rank

    def get_rank(self, **coord_kwargs):
        if len(coord_kwargs) != len(self.axes):
            raise ValueError('get_rank() does not support slices. Use filter_match())')
        key = self.ProcessCoord(**coord_kwargs)
        return self.mapping[key]

    def get_axis_names(self):
        return self.axes

    def get_dim(self, axis):
        if axis not in self.axes:
            return 0
        return self.dims[self.axes.index(axis)]

    def get_coord(self, rank):
        for coord, idx in self.mapping.items():
            if idx == rank:
                return coord
        raise ValueError(f'rank {rank} not found in topology.')

    def get_axis_comm_lists(self, axis):
        if axis not in self.axes:
            return []
        other_axes = [a for a in self.axes if a != axis]
        lists = []
        for coord in product(*[range(self.get_dim(a)) for a in other_axes]):
            other_keys = {a: coord[other_axes.index(a)] for a in other_axes}
            sub_list = []
            for axis_key in range(self.get_dim(axis)):
                key = self.ProcessCoord(**other_keys, **{axis: axis_key})
                sub_list.append(self.mapping[key])
            lists.append(sub_list)
        return lists

    def filter_match(self, **filter_kwargs):
        def _filter_helper(x):
            for key, val in filter_kwargs.items():
                if getattr(x, key) != val:
                    return False
            return True
        coords = filter(_filter_helper, self.mapping.keys())
        return [self.mapping[coord] for coord in coords]

    def get_axis_list(self, axis, idx):
        axis_num = self.axes.index(axis)
        return [self.mapping[k] for k in self.mapping.keys() if k[axis_num] == idx]

    def world_size(self):
        return len(self.mapping)

    def __str__(self):
        return str(self.mapping)


class PipeModelDataParallelTopology(ProcessTopology):
    def __init__(self, num_pp, num_mp, num_dp):
        super().__init__(axes=['pipe', 'data', 'model'], dims=[num_pp, num_dp, num_mp])


class PipeDataParallelTopology(ProcessTopology):
    def __init__(self, num_pp, num_dp):
        super().__init__(axes=['pipe', 'data'], dims=[num_pp, num_dp])
