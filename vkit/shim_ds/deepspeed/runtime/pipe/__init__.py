from . import topology  # noqa: F401
