from . import pipe  # noqa: F401
