"""flatten / unflatten of dense tensors (torch._utils)."""
from . import _tensor as T


def _flatten_dense_tensors(tensors):
    tensors = list(tensors)
    return T.cat([t.reshape(-1) for t in tensors], dim=0)


def _unflatten_dense_tensors(flat, tensors):
    outputs = []
    offset = 0
    for t in tensors:
        n = t.nelement()
        if n == 0:
            outputs.append(T.empty_like(t))
        else:
            outputs.append(flat.narrow(0, offset, n).view_as(t))
            offset += n
    return tuple(outputs)
