"""torch.save / torch.load on an in-memory file system shared by all ranks."""
import copy

FS: dict = {}
DIRS: set = set()


def reset():
    FS.clear()
    DIRS.clear()


def save(obj, path, *a, **k):
    FS[str(path)] = copy.deepcopy(obj)


def load(path, *a, **k):
    if str(path) not in FS:
        raise FileNotFoundError(path)
    return copy.deepcopy(FS[str(path)])


class MemOS:
    """Stand-in for the `os` module inside kfac.gpt_neox.preconditioner."""

    class _Path:
        @staticmethod
        def isdir(p):
            return str(p) in DIRS

        @staticmethod
        def exists(p):
            return str(p) in FS or str(p) in DIRS

        @staticmethod
        def join(*parts):
            return '/'.join(str(x) for x in parts)

    path = _Path()

    @staticmethod
    def makedirs(p, exist_ok=False):
        if str(p) in DIRS and not exist_ok:
            raise FileExistsError(p)
        DIRS.add(str(p))
