"""symtorch: the stand-in for `torch` under which /repo/kfac is executed."""

from __future__ import annotations

import functools as _functools

from . import _tensor
from ._tensor import (  # noqa: F401
    Parameter, Size, Tensor, arange, as_tensor, bfloat16, cat, chunk, clamp,
    concat, device, diag, double, dtype, empty, empty_like, equal, allclose,
    eye, flatten, float16, float32, float64, full, ger, get_default_dtype,
    half, int32, int64, is_tensor, long, matmul, mm, numel, ones, ones_like,
    outer, reshape, set_default_dtype, split, square, squeeze, stack, tensor,
    transpose, tril, tril_indices, triu, triu_indices, unsqueeze, zeros,
    zeros_like, mul, add, sub, div, mean, take, index_select,
)

float = _tensor.float32  # noqa: A001
bool = _tensor.bool_  # noqa: A001
sum = _tensor.sum_  # noqa: A001
abs = _tensor.abs_  # noqa: A001
FloatTensor = Tensor

__version__ = '0.0-symtorch'


class no_grad:  # noqa: N801
    def __enter__(self):
        return self

    def __exit__(self, *a):
        return False

    def __call__(self, fn):
        @_functools.wraps(fn)
        def wrapper(*a, **k):
            with self:
                return fn(*a, **k)
        return wrapper


enable_grad = no_grad


def is_grad_enabled():
    return False


def manual_seed(s):
    return None


from . import _C  # noqa: E402,F401
from . import _utils  # noqa: E402,F401
from . import cuda  # noqa: E402,F401
from . import distributed  # noqa: E402,F401
from . import futures  # noqa: E402,F401
from . import linalg  # noqa: E402,F401
from . import nn  # noqa: E402,F401
from . import serialization as _ser  # noqa: E402

save = _ser.save
load = _ser.load
