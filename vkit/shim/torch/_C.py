from .futures import BaseFuture as Future  # noqa: F401
