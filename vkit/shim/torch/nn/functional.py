"""torch.nn.functional subset."""
from fractions import Fraction

import numpy as np

from .. import _tensor as T


def pad(x, pad, mode='constant', value=0):  # noqa: A002
    if mode != 'constant':
        raise NotImplementedError(mode)
    if len(pad) % 2 or len(pad) // 2 > x.a.ndim:
        raise RuntimeError('Padding length must be divisible by 2 and at most twice the number of dimensions')
    widths = [(0, 0)] * x.a.ndim
    for i in range(len(pad) // 2):
        widths[x.a.ndim - 1 - i] = (pad[2 * i], pad[2 * i + 1])
    if any(w < 0 for p in widths for w in p):
        raise NotImplementedError('negative padding')
    fill = T._norm_scalar(value)
    if isinstance(fill, int):
        fill = Fraction(fill)
    a = np.pad(x.a, widths, mode='constant', constant_values=fill)
    return x._new(a)


def linear(x, w, b=None):
    y = x @ w.t()
    return y if b is None else y + b


def conv2d(x, w, b=None, stride=(1, 1), padding=(0, 0), dilation=1, groups=1):
    """Reference convolution (explicit index formula), used by harness oracles."""
    if isinstance(stride, int):
        stride = (stride, stride)
    if isinstance(padding, int):
        padding = (padding, padding)
    n, c, h, wd = x.a.shape
    o, ci, kh, kw = w.a.shape
    ph, pw = padding
    sh, sw = stride
    oh = (h + 2 * ph - kh) // sh + 1
    ow = (wd + 2 * pw - kw) // sw + 1
    out = np.empty((n, o, oh, ow), dtype=object)
    for nn_ in range(n):
        for oo in range(o):
            for i in range(oh):
                for j in range(ow):
                    acc = Fraction(0) if b is None else b.a[oo]
                    for cc in range(c):
                        for a_ in range(kh):
                            for b_ in range(kw):
                                y, xx = i * sh + a_ - ph, j * sw + b_ - pw
                                if 0 <= y < h and 0 <= xx < wd:
                                    acc = acc + x.a[nn_, cc, y, xx] * w.a[oo, cc, a_, b_]
                    out[nn_, oo, i, j] = acc
    return x._new(out)


def unfold(x, kernel_size, dilation=1, padding=0, stride=1):
    """im2col as torch.nn.functional.unfold: (N, C*kh*kw, L)."""
    pair = lambda v: tuple(v) if isinstance(v, (tuple, list)) else (v, v)  # noqa: E731
    kh, kw = pair(kernel_size)
    ph, pw = pair(padding)
    sh, sw = pair(stride)
    n, c, h, wd = x.a.shape
    oh = (h + 2 * ph - kh) // sh + 1
    ow = (wd + 2 * pw - kw) // sw + 1
    out = np.empty((n, c * kh * kw, oh * ow), dtype=object)
    for nn_ in range(n):
        for cc in range(c):
            for a_ in range(kh):
                for b_ in range(kw):
                    row = (cc * kh + a_) * kw + b_
                    for i in range(oh):
                        for j in range(ow):
                            y, xx = i * sh + a_ - ph, j * sw + b_ - pw
                            out[nn_, row, i * ow + j] = (
                                x.a[nn_, cc, y, xx] if 0 <= y < h and 0 <= xx < wd else Fraction(0))
    return x._new(out)
