"""torch.nn for the symtorch shim: module tree, parameters, hooks.

Autograd does not exist; harnesses drive the registered forward-pre and
full-backward hooks directly and set `.grad` themselves.
"""

from __future__ import annotations

from collections import OrderedDict
from fractions import Fraction
from typing import Any, Iterator

from .. import _tensor as T
from .._tensor import Parameter, Tensor
from . import functional  # noqa: F401
from . import parallel  # noqa: F401


class _Handle:
    def __init__(self, d, k):
        self.d, self.k = d, k

    def remove(self):
        self.d.pop(self.k, None)


_hook_ids = iter(range(1, 10**9))


class Module:
    def __init__(self, *a, **k):
        object.__setattr__(self, '_parameters', OrderedDict())
        object.__setattr__(self, '_buffers', OrderedDict())
        object.__setattr__(self, '_modules', OrderedDict())
        object.__setattr__(self, '_forward_pre_hooks', OrderedDict())
        object.__setattr__(self, '_forward_hooks', OrderedDict())
        object.__setattr__(self, '_backward_hooks', OrderedDict())
        object.__setattr__(self, 'training', True)

    # -- attribute registration (as torch) --------------------------------
    def __setattr__(self, name, value):
        d = self.__dict__
        if isinstance(value, Parameter):
            if '_parameters' not in d:
                raise AttributeError('cannot assign parameters before Module.__init__() call')
            d.pop(name, None)
            self._modules.pop(name, None)
            self._parameters[name] = value
        elif '_parameters' in d and name in d['_parameters']:
            if value is not None:
                raise TypeError(f"cannot assign '{type(value)}' as parameter '{name}'")
            self._parameters[name] = None
        elif isinstance(value, Module):
            if '_modules' not in d:
                raise AttributeError('cannot assign module before Module.__init__() call')
            d.pop(name, None)
            self._parameters.pop(name, None)
            self._modules[name] = value
        elif '_modules' in d and name in d['_modules']:
            self._modules[name] = value
        elif '_buffers' in d and name in d['_buffers']:
            self._buffers[name] = value
        else:
            object.__setattr__(self, name, value)

    def __getattr__(self, name):
        d = self.__dict__
        for store in ('_parameters', '_buffers', '_modules'):
            if store in d and name in d[store]:
                return d[store][name]
        raise AttributeError(f"'{type(self).__name__}' object has no attribute '{name}'")

    def __delattr__(self, name):
        for store in ('_parameters', '_buffers', '_modules'):
            if name in self.__dict__[store]:
                del self.__dict__[store][name]
                return
        object.__delattr__(self, name)

    def register_parameter(self, name, p):
        self._parameters[name] = p

    def register_buffer(self, name, t, persistent=True):
        self._buffers[name] = t

    def add_module(self, name, m):
        self._modules[name] = m

    register_module = add_module

    # -- traversal ---------------------------------------------------------
    def children(self) -> Iterator['Module']:
        memo = set()
        for m in self._modules.values():
            if m is not None and m not in memo:
                memo.add(m)
                yield m

    def named_children(self):
        memo = set()
        for n, m in self._modules.items():
            if m is not None and m not in memo:
                memo.add(m)
                yield n, m

    def named_modules(self, memo=None, prefix='', remove_duplicate=True):
        if memo is None:
            memo = set()
        if self not in memo:
            if remove_duplicate:
                memo.add(self)
            yield prefix, self
            for name, m in self._modules.items():
                if m is None:
                    continue
                sub = prefix + ('.' if prefix else '') + name
                yield from m.named_modules(memo, sub, remove_duplicate)

    def modules(self):
        for _, m in self.named_modules():
            yield m

    def named_parameters(self, prefix='', recurse=True, remove_duplicate=True):
        memo = set()
        mods = self.named_modules(prefix=prefix) if recurse else [(prefix, self)]
        for mp, m in mods:
            for n, p in m._parameters.items():
                if p is None or (remove_duplicate and id(p) in memo):
                    continue
                memo.add(id(p))
                yield mp + ('.' if mp else '') + n, p

    def parameters(self, recurse=True):
        for _, p in self.named_parameters(recurse=recurse):
            yield p

    def named_buffers(self, prefix='', recurse=True):
        mods = self.named_modules(prefix=prefix) if recurse else [(prefix, self)]
        for mp, m in mods:
            for n, b in m._buffers.items():
                if b is not None:
                    yield mp + ('.' if mp else '') + n, b

    def buffers(self, recurse=True):
        for _, b in self.named_buffers(recurse=recurse):
            yield b

    def state_dict(self):
        out = OrderedDict()
        for n, p in self.named_parameters():
            out[n] = p
        for n, b in self.named_buffers():
            out[n] = b
        return out

    # -- mode ---------------------------------------------------------------
    def train(self, mode=True):
        self.training = mode
        for m in self.children():
            m.train(mode)
        return self

    def eval(self):
        return self.train(False)

    def requires_grad_(self, flag=True):
        for p in self.parameters():
            p.requires_grad = flag
        return self

    def zero_grad(self, set_to_none=True):
        for p in self.parameters():
            p.grad = None

    def to(self, *a, **k):
        return self

    def cpu(self):
        return self

    def cuda(self, *a):
        return self

    def apply(self, fn):
        for m in self.children():
            m.apply(fn)
        fn(self)
        return self

    # -- hooks ----------------------------------------------------------------
    def register_forward_pre_hook(self, hook, **kw):
        k = next(_hook_ids)
        self._forward_pre_hooks[k] = hook
        return _Handle(self._forward_pre_hooks, k)

    def register_forward_hook(self, hook, **kw):
        k = next(_hook_ids)
        self._forward_hooks[k] = hook
        return _Handle(self._forward_hooks, k)

    def register_full_backward_hook(self, hook, **kw):
        k = next(_hook_ids)
        self._backward_hooks[k] = hook
        return _Handle(self._backward_hooks, k)

    register_backward_hook = register_full_backward_hook

    def forward(self, *a, **k):
        raise NotImplementedError

    def __call__(self, *args, **kw):
        for hook in list(self._forward_pre_hooks.values()):
            r = hook(self, args)
            if r is not None:
                args = r if isinstance(r, tuple) else (r,)
        out = self.forward(*args, **kw)
        for hook in list(self._forward_hooks.values()):
            r = hook(self, args, out)
            if r is not None:
                out = r
        return out

    def extra_repr(self):
        return ''

    def __repr__(self):
        return f'{type(self).__name__}({self.extra_repr()})'

    __hash__ = object.__hash__

    def __eq__(self, o):
        return self is o


def _init(shape, seed):
    """Deterministic, distinct, small rational initial values."""
    t = T.empty(*shape)
    flat = t.a.reshape(-1)
    for i in range(flat.size):
        flat[i] = Fraction(((seed * 31 + i * 7) % 19) - 9, 8)
    return t


class Linear(Module):
    def __init__(self, in_features, out_features, bias=True, device=None, dtype=None):
        super().__init__()
        self.in_features, self.out_features = in_features, out_features
        self.weight = Parameter(_init((out_features, in_features), in_features + 3 * out_features))
        if bias:
            self.bias = Parameter(_init((out_features,), 5 + out_features))
        else:
            self.register_parameter('bias', None)
        if dtype is not None:
            for p in self.parameters():
                p.dtype = dtype

    def forward(self, x):
        y = x @ self.weight.t()
        if self.bias is not None:
            y = y + self.bias
        return y

    def extra_repr(self):
        return f'in_features={self.in_features}, out_features={self.out_features}, bias={self.bias is not None}'


def _pair(x):
    return tuple(x) if isinstance(x, (tuple, list)) else (x, x)


class Conv2d(Module):
    def __init__(self, in_channels, out_channels, kernel_size, stride=1,
                 padding=0, dilation=1, groups=1, bias=True,
                 padding_mode='zeros', device=None, dtype=None):
        super().__init__()
        self.in_channels, self.out_channels = in_channels, out_channels
        self.kernel_size = _pair(kernel_size)
        self.stride = _pair(stride)
        self.padding = _pair(padding)
        self.dilation = _pair(dilation)
        self.groups = groups
        self.padding_mode = padding_mode
        self.weight = Parameter(_init(
            (out_channels, in_channels // groups) + self.kernel_size, 11 + out_channels))
        if bias:
            self.bias = Parameter(_init((out_channels,), 13 + out_channels))
        else:
            self.register_parameter('bias', None)

    def forward(self, x):
        return functional.conv2d(x, self.weight, self.bias, self.stride, self.padding)

    def extra_repr(self):
        return (f'{self.in_channels}, {self.out_channels}, kernel_size={self.kernel_size}, '
                f'stride={self.stride}, padding={self.padding}')


class Embedding(Module):
    def __init__(self, num_embeddings, embedding_dim):
        super().__init__()
        self.weight = Parameter(_init((num_embeddings, embedding_dim), 17))


class LayerNorm(Module):
    def __init__(self, normalized_shape):
        super().__init__()
        n = normalized_shape if isinstance(normalized_shape, int) else normalized_shape[0]
        self.weight = Parameter(_init((n,), 19))
        self.bias = Parameter(_init((n,), 23))


class BatchNorm2d(Module):
    def __init__(self, n):
        super().__init__()
        self.weight = Parameter(_init((n,), 29))
        self.bias = Parameter(_init((n,), 31))
        self.register_buffer('running_mean', T.zeros(n))
        self.register_buffer('running_var', T.ones(n))


class _Act(Module):
    def __init__(self, *a, **k):
        super().__init__()

    def forward(self, x):
        raise NotImplementedError('activation values are not modelled')


class ReLU(_Act):
    pass


class Softmax(_Act):
    pass


class Tanh(_Act):
    pass


class Dropout(_Act):
    pass


class Identity(Module):
    def forward(self, x):
        return x


class Flatten(_Act):
    pass


class Sequential(Module):
    def __init__(self, *mods):
        super().__init__()
        if len(mods) == 1 and isinstance(mods[0], OrderedDict):
            for k, m in mods[0].items():
                self.add_module(k, m)
        else:
            for i, m in enumerate(mods):
                self.add_module(str(i), m)

    def __iter__(self):
        return iter(self._modules.values())

    def __len__(self):
        return len(self._modules)

    def __getitem__(self, i):
        return list(self._modules.values())[i]

    def forward(self, x):
        for m in self:
            x = m(x)
        return x


class ModuleList(Module):
    def __init__(self, mods=None):
        super().__init__()
        for i, m in enumerate(mods or []):
            self.add_module(str(i), m)

    def append(self, m):
        self.add_module(str(len(self._modules)), m)
        return self

    def __iter__(self):
        return iter(self._modules.values())

    def __len__(self):
        return len(self._modules)

    def __getitem__(self, i):
        return list(self._modules.values())[i]


class ModuleDict(Module):
    def __init__(self, mods=None):
        super().__init__()
        for k, m in (mods or {}).items():
            self.add_module(k, m)

    def __getitem__(self, k):
        return self._modules[k]

    def __setitem__(self, k, m):
        self.add_module(k, m)

    def items(self):
        return self._modules.items()
