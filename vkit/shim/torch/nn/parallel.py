class DistributedDataParallel:
    def __init__(self, *a, **k):
        raise NotImplementedError('DDP is not modelled')
