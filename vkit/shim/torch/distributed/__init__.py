"""Deterministic multi-rank SPMD simulator behind the torch.distributed API.

Each rank is a Python thread; exactly one holds the baton.  A rank runs until
it blocks (wait() on an incomplete communication future, or a blocking
collective) and then hands the baton to the scheduler, which picks the next
runnable rank under a deterministic, seeded policy.  Collectives are matched
per group in issue order (the gloo / NCCL rule); at match time descriptors are
compared and the result is computed on the members' (symbolic) terms.

Everything is logged as events; structural problems (mismatch, foreign group,
root outside the group, differing new_group sequences, deadlock, operations
never completed) are collected in `Sim.violations`.
"""

from __future__ import annotations

import contextlib
import copy
import random
import threading
from collections import deque
from typing import Any, Callable

from .. import _tensor as T
from ..futures import BaseFuture

_SIM: 'Sim | None' = None
_TLS = threading.local()


class SimAbort(BaseException):
    pass


class Deadlock(Exception):
    pass


class CollectiveMismatch(RuntimeError):
    pass


class ReduceOp:
    SUM = 'sum'
    AVG = 'avg'


class ProcessGroup:
    def __init__(self, gid: int, ranks: tuple, backend=None):
        self.gid = gid
        self.ranks = tuple(ranks)
        self.backend = backend

    def size(self):
        return len(self.ranks)

    def rank(self):
        r = _sim_current_rank()
        return self.ranks.index(r) if r in self.ranks else -1

    def __repr__(self):
        return f'PG#{self.gid}{list(self.ranks)}'


class _NonMember:
    """GroupMember.NON_GROUP_MEMBER for one particular group."""

    def __init__(self, pg: ProcessGroup):
        self.pg = pg

    def __repr__(self):
        return f'NON_MEMBER({self.pg})'


class GroupMember:
    WORLD = None
    NON_GROUP_MEMBER = _NonMember


class group:  # noqa: N801
    WORLD = None


class Work:
    def __init__(self, fut: BaseFuture, label):
        self._fut = fut
        self._label = label

    def get_future(self):
        return self._fut

    def wait(self, timeout=None):
        self._fut.wait()
        return True

    def is_completed(self):
        return self._fut.done()


class _Op:
    __slots__ = ('kind', 'rank', 'desc', 'payload', 'fut', 'seq')

    def __init__(self, kind, rank, desc, payload, fut, seq):
        self.kind, self.rank, self.desc = kind, rank, desc
        self.payload, self.fut, self.seq = payload, fut, seq


class Sim:
    def __init__(self, world: int, policy: str = 'rr', seed: int = 0,
                 preempt: bool = False):
        self.world = world
        self.policy = policy
        self.preempt = preempt
        self.rnd = random.Random(seed)
        self.world_pg = ProcessGroup(0, tuple(range(world)))
        self.groups: list[ProcessGroup] = [self.world_pg]
        self.pending: dict[int, dict[int, deque]] = {0: {r: deque() for r in range(world)}}
        self.newgroup_calls: dict[int, list] = {r: [] for r in range(world)}
        self.newgroup_matched: list = []
        self.events: list[dict] = []
        self.violations: list[dict] = []
        self.seq = {r: 0 for r in range(world)}
        self.state: dict[int, Any] = {}
        self.errors: dict[int, BaseException] = {}
        self.results: dict[int, Any] = {}
        self.abort = False
        self.fatal: BaseException | None = None
        self.sems = {r: threading.Semaphore(0) for r in range(world)}
        self.sched = threading.Semaphore(0)
        self.blocked: dict[int, tuple] = {}
        self.finished: set[int] = set()
        self.issued_ops: list[_Op] = []
        self.issue_count: dict = {}
        self.last = -1
        self.step_marks: list = []

    # ------------------------------------------------------------ running
    def run(self, fn: Callable[[int], Any]):
        global _SIM
        if _SIM is not None:
            raise RuntimeError('a simulation is already running')
        _SIM = self
        threads = []
        try:
            for r in range(self.world):
                t = threading.Thread(target=self._rank_main, args=(r, fn),
                                     daemon=True)
                threads.append(t)
                t.start()
            self._schedule()
            for t in threads:
                t.join()
        finally:
            _SIM = None
        if self.fatal is not None:
            raise self.fatal
        return self

    def _rank_main(self, r, fn):
        _TLS.rank = r
        self.sems[r].acquire()
        try:
            if self.abort:
                raise SimAbort()
            self.results[r] = fn(r)
        except SimAbort:
            pass
        except Exception as e:  # noqa: BLE001
            self.errors[r] = e
        except BaseException as e:  # noqa: BLE001  (PathAbort, NotEncodable ..)
            if self.fatal is None:
                self.fatal = e
            self.abort = True
        finally:
            self.finished.add(r)
            self.sched.release()

    def _runnable(self):
        out = []
        for r in range(self.world):
            if r in self.finished:
                continue
            b = self.blocked.get(r)
            if b is None or b[0]():
                out.append(r)
        return out

    def _pick(self, cands):
        if self.policy == 'rr':
            for k in range(1, self.world + 1):
                c = (self.last + k) % self.world
                if c in cands:
                    return c
        if self.policy == 'reverse':
            for k in range(1, self.world + 1):
                c = (self.last - k) % self.world
                if c in cands:
                    return c
        if self.policy == 'low':
            return min(cands)
        if self.policy == 'high':
            return max(cands)
        if self.policy == 'random':
            return self.rnd.choice(sorted(cands))
        return cands[0]

    def _schedule(self):
        while len(self.finished) < self.world:
            if self.abort:
                for r in range(self.world):
                    if r not in self.finished:
                        self.sems[r].release()
                        self.sched.acquire()
                break
            cands = self._runnable()
            if not cands:
                waits = {r: self.blocked[r][1] for r in range(self.world)
                         if r not in self.finished}
                self.violations.append({
                    'kind': 'deadlock', 'waiting': {str(k): repr(v) for k, v in waits.items()},
                    'errors': {str(k): repr(v) for k, v in self.errors.items()}})
                self.abort = True
                continue
            r = self._pick(cands)
            self.last = r
            self.blocked.pop(r, None)
            self.sems[r].release()
            self.sched.acquire()

    def block_until(self, pred, why):
        r = _TLS.rank
        while True:
            if self.abort:
                raise SimAbort()
            if pred():
                return
            self.blocked[r] = (pred, why)
            self.sched.release()
            self.sems[r].acquire()

    def yield_point(self):
        if self.preempt:
            r = _TLS.rank
            if self.abort:
                raise SimAbort()
            self.blocked[r] = (lambda: True, 'yield')
            self.sched.release()
            self.sems[r].acquire()
            if self.abort:
                raise SimAbort()

    # ------------------------------------------------------------ logging
    def log(self, rank, kind, pg, **kw):
        ev = {'rank': rank, 'seq': self.seq[rank], 'kind': kind,
              'group': list(pg.ranks) if pg is not None else None,
              'gid': pg.gid if pg is not None else None}
        ev.update(kw)
        self.seq[rank] += 1
        self.events.append(ev)
        return ev

    def violation(self, kind, **kw):
        v = {'kind': kind}
        v.update(kw)
        self.violations.append(v)

    # ------------------------------------------------------------ groups
    def resolve(self, g, rank, what, record=True):
        """-> (pg, ok).  ok False: the caller is not a member."""
        if g is None:
            return self.world_pg, True
        if isinstance(g, _NonMember):
            if record:
                self.violation('foreign-group', rank=rank, op=what,
                               group=list(g.pg.ranks))
            return g.pg, False
        if isinstance(g, ProcessGroup):
            if rank not in g.ranks:
                if record:
                    self.violation('foreign-group', rank=rank, op=what,
                                   group=list(g.ranks))
                return g, False
            return g, True
        raise TypeError(f'Invalid process group specified: {g!r}')

    # ------------------------------------------------------------ collectives
    def issue(self, kind, g, desc, payload, async_op, what=None):
        rank = _TLS.rank
        pg, ok = self.resolve(g, rank, kind)
        if not ok:
            # torch: warns and returns None
            self.log(rank, kind, pg, phase='foreign', **desc)
            return None
        self.yield_point()
        fut = BaseFuture(owner=rank)
        k = self.issue_count.get((pg.gid, rank), 0)
        self.issue_count[(pg.gid, rank)] = k + 1
        cid = f'{pg.gid}:{k}'
        fut._label = (kind, cid)
        op = _Op(kind, rank, desc, payload, fut, self.seq[rank])
        self.log(rank, kind, pg, phase='issue', cid=cid, **desc)
        self.issued_ops.append(op)
        self.pending[pg.gid][rank].append(op)
        self._try_match(pg)
        if async_op:
            return Work(fut, fut._label)
        self.log(rank, 'wait', pg, phase='wait', on=kind, cid=cid)
        if not fut.done():
            self.block_until(lambda: fut.done(), (kind, pg.gid))
        fut.value()
        return None

    def _try_match(self, pg):
        q = self.pending[pg.gid]
        while all(len(q[r]) > 0 for r in pg.ranks):
            ops = [q[r].popleft() for r in pg.ranks]
            d0 = ops[0]
            for o in ops[1:]:
                if o.kind != d0.kind or o.desc != d0.desc:
                    self.violation(
                        'collective-mismatch', group=list(pg.ranks),
                        a={'rank': d0.rank, 'kind': d0.kind, **_jd(d0.desc)},
                        b={'rank': o.rank, 'kind': o.kind, **_jd(o.desc)})
                    err = CollectiveMismatch(
                        f'mismatched collectives on {pg}: {d0.kind}{d0.desc} '
                        f'vs {o.kind}{o.desc}')
                    for x in ops:
                        x.fut.set_exception(err)
                    return
            try:
                self._complete(pg, ops)
            except CollectiveMismatch as e:
                for x in ops:
                    if not x.fut.done():
                        x.fut.set_exception(e)
                return

    def _complete(self, pg, ops):
        kind = ops[0].kind
        if kind == 'all_reduce':
            arrs = [o.payload.a for o in ops]
            tot = arrs[0].copy()
            for a in arrs[1:]:
                tot = tot + a
            for o in ops:
                o.payload.a[...] = tot
                o.payload._bump()
            for o in ops:
                o.fut.set_result([o.payload])
        elif kind == 'broadcast':
            root = ops[0].desc['root']
            if root not in pg.ranks:
                self.violation('root-not-member', root=root, group=list(pg.ranks))
                raise CollectiveMismatch('broadcast root outside the group')
            src = [o for o in ops if o.rank == root][0].payload.a.copy()
            for o in ops:
                if o.rank != root:
                    o.payload.a[...] = src
                    o.payload._bump()
            for o in ops:
                o.fut.set_result([o.payload])
        elif kind == 'all_gather':
            for o in ops:
                outs, _ = o.payload
                for dst, src_op in zip(outs, ops):
                    dst.a[...] = src_op.payload[1].a
                    dst._bump()
            for o in ops:
                o.fut.set_result(None)
        elif kind == 'reduce_scatter':
            for i, o in enumerate(ops):
                out, _ = o.payload
                tot = None
                for src_op in ops:
                    part = src_op.payload[1][i].a
                    tot = part.copy() if tot is None else tot + part
                out.a[...] = tot
                out._bump()
            for o in ops:
                o.fut.set_result(None)
        elif kind == 'barrier':
            for o in ops:
                o.fut.set_result(None)
        elif kind == 'all_gather_object':
            objs = [copy.deepcopy(o.payload[1]) for o in ops]
            for o in ops:
                lst = o.payload[0]
                for i in range(len(objs)):
                    lst[i] = copy.deepcopy(objs[i])
            for o in ops:
                o.fut.set_result(None)
        else:
            raise RuntimeError(kind)

    # ------------------------------------------------------------ new_group
    def new_group(self, ranks, backend):
        rank = _TLS.rank
        rk = tuple(sorted(ranks)) if ranks is not None else tuple(range(self.world))
        calls = self.newgroup_calls[rank]
        idx = len(calls)
        calls.append(rk)
        self.log(rank, 'new_group', None, phase='issue', members=list(rk))
        self.yield_point()
        # world-collective: wait until every rank has made its idx-th call
        self.block_until(
            lambda: all(len(self.newgroup_calls[r]) > idx for r in range(self.world)),
            ('new_group', idx, rk))
        if len(self.newgroup_matched) <= idx:
            lists = [self.newgroup_calls[r][idx] for r in range(self.world)]
            if any(x != lists[0] for x in lists):
                self.violation('new_group-mismatch', index=idx,
                               lists={str(r): list(x) for r, x in enumerate(lists)})
                self.newgroup_matched.append(None)
            else:
                pg = ProcessGroup(len(self.groups), lists[0], backend)
                self.groups.append(pg)
                self.pending[pg.gid] = {r: deque() for r in pg.ranks}
                self.newgroup_matched.append(pg)
        pg = self.newgroup_matched[idx]
        if pg is None:
            raise CollectiveMismatch('new_group called with different ranks')
        if rank in pg.ranks:
            return pg
        return _NonMember(pg)

    # ------------------------------------------------------------ end checks
    def finish_checks(self):
        """Everything issued must have completed; nothing left unmatched."""
        for gid, q in self.pending.items():
            for r, dq in q.items():
                for op in dq:
                    self.violation('unmatched-operation', rank=r, op=op.kind,
                                   group=list(self.groups[gid].ranks), **_jd(op.desc))
        for r in range(self.world):
            n = len(self.newgroup_calls[r])
            if n != len(self.newgroup_calls[0]):
                self.violation('new_group-count', rank=r, n=n,
                               n0=len(self.newgroup_calls[0]))


def _jd(d):
    return {k: (list(v) if isinstance(v, tuple) else (str(v) if not isinstance(v, (int, str, type(None))) else v))
            for k, v in d.items()}


# ---------------------------------------------------------------- hooks
def _sim_current_rank():
    return getattr(_TLS, 'rank', 0)


@contextlib.contextmanager
def _sim_as_rank(r):
    old = getattr(_TLS, 'rank', 0)
    _TLS.rank = r
    try:
        yield
    finally:
        _TLS.rank = old


def _sim_block_until(pred, why):
    if _SIM is None:
        if not pred():
            raise Deadlock(f'wait() on an incomplete future outside a simulation: {why}')
        return
    _SIM.block_until(pred, why)


def _sim_log_wait(label):
    """a wait() that did not block is still a wait event of the trace"""
    if _SIM is None or not isinstance(label, tuple) or len(label) < 2:
        return
    _SIM.log(_TLS.rank, 'wait', None, phase='wait', on=str(label[0]), cid=label[1])


def current_sim() -> Sim | None:
    return _SIM


# ---------------------------------------------------------------- public API
def is_available():
    return True


def is_initialized():
    return _SIM is not None


def init_process_group(*a, **k):
    raise RuntimeError('use vkit.sim to start a simulated world')


def destroy_process_group(*a, **k):
    pass


def _need():
    if _SIM is None:
        raise RuntimeError(
            'Default process group has not been initialized, please make '
            'sure to call init_process_group.')
    return _SIM


def get_rank(group=None):  # noqa: A002
    s = _need()
    r = _TLS.rank
    if group is None:
        return r
    if isinstance(group, _NonMember):
        return -1
    return group.ranks.index(r) if r in group.ranks else -1


def get_world_size(group=None):  # noqa: A002
    s = _need()
    if group is None:
        return s.world
    if isinstance(group, _NonMember):
        return -1
    if not isinstance(group, ProcessGroup):
        raise TypeError(f'Invalid process group specified: {group!r}')
    if _TLS.rank not in group.ranks:
        return -1
    return len(group.ranks)


def get_process_group_ranks(group):  # noqa: A002
    s = _need()
    if group is None:
        return list(range(s.world))
    return list(group.ranks if isinstance(group, ProcessGroup) else group.pg.ranks)


def get_backend(group=None):  # noqa: A002
    return 'gloo'


def new_group(ranks=None, timeout=None, backend=None, pg_options=None, **kw):
    return _need().new_group(ranks, backend)


def _tdesc(t, root=None):
    if not isinstance(t, T.Tensor):
        raise TypeError('expected a tensor')
    if not t.is_contiguous():
        raise ValueError('Tensors must be contiguous')
    d = {'shape': tuple(t.a.shape), 'dtype': t.dtype.name,
         'nelem': int(t.a.size), 'elsize': t.dtype.itemsize}
    if root is not None:
        d['root'] = root
    return d


def all_reduce(tensor, op=ReduceOp.SUM, group=None, async_op=False):  # noqa: A002
    if op != ReduceOp.SUM:
        raise NotImplementedError('only SUM is modelled')
    return _need().issue('all_reduce', group, _tdesc(tensor), tensor, async_op)


def broadcast(tensor, src=0, group=None, async_op=False, group_src=None):  # noqa: A002
    return _need().issue('broadcast', group, _tdesc(tensor, int(src)), tensor, async_op)


def all_gather(tensor_list, tensor, group=None, async_op=False):  # noqa: A002
    d = _tdesc(tensor)
    d['n_out'] = len(tensor_list)
    for t in tensor_list:
        if tuple(t.a.shape) != tuple(tensor.a.shape):
            raise ValueError('all_gather: output tensor shape mismatch')
    s = _need()
    pg, ok = s.resolve(group, _TLS.rank, 'all_gather', False)
    if ok and len(tensor_list) != len(pg.ranks):
        raise ValueError('all_gather: output list has the wrong length')
    return s.issue('all_gather', group, d, (tensor_list, tensor), async_op)


def reduce_scatter(output, input_list, op=ReduceOp.SUM, group=None, async_op=False):  # noqa: A002
    d = _tdesc(output)
    d['n_in'] = len(input_list)
    for t in input_list:
        if tuple(t.a.shape) != tuple(output.a.shape):
            raise ValueError('reduce_scatter: input tensor shape mismatch')
        if not t.is_contiguous():
            raise ValueError('Tensors must be contiguous')
    s = _need()
    pg, ok = s.resolve(group, _TLS.rank, 'reduce_scatter', False)
    if ok and len(input_list) != len(pg.ranks):
        raise ValueError('reduce_scatter: input list has the wrong length')
    return s.issue('reduce_scatter', group, d, (output, list(input_list)), async_op)


def barrier(group=None, async_op=False, device_ids=None):  # noqa: A002
    return _need().issue('barrier', group, {}, None, async_op)


def all_gather_object(object_list, obj, group=None):  # noqa: A002
    s = _need()
    pg, ok = s.resolve(group, _TLS.rank, 'all_gather_object', False)
    if ok and len(object_list) != len(pg.ranks):
        raise ValueError('all_gather_object: object_list has the wrong length')
    return s.issue('all_gather_object', group, {'n': len(object_list)},
                   (object_list, obj), False)
