"""Futures for the symtorch shim.

`wait()` on an incomplete future hands the baton to the distributed simulator.
Callbacks registered with `then` / `add_done_callback` run when the parent
completes, under the rank identity of the rank that owns the future (in real
torch they run on a communication thread of the owning process).
"""

from __future__ import annotations

from typing import Any, Callable

_CB_LABEL = [None]   # label of the communication future whose callbacks are running


class BaseFuture:
    def __init__(self, owner: int | None = None):
        from .distributed import _sim_current_rank
        self._done = False
        self._value: Any = None
        self._exc: BaseException | None = None
        self._cbs: list[Callable] = []
        self._owner = owner if owner is not None else _sim_current_rank()
        self._label = None

    def done(self) -> bool:
        return self._done

    def value(self):
        if not self._done:
            raise RuntimeError('Future is not complete')
        if self._exc is not None:
            raise self._exc
        return self._value

    def wait(self):
        from .distributed import _sim_block_until, _sim_log_wait
        if not self._done:
            _sim_block_until(lambda: self._done, ('future', self._label))
        _sim_log_wait(self._label)
        return self.value()

    def set_result(self, v):
        if self._done:
            raise RuntimeError('Future already completed')
        if self._label is None:
            # a user-created future completed from a communication callback
            # (bucket sub-futures) belongs to that collective
            self._label = _CB_LABEL[0]
        self._value = v
        self._done = True
        self._fire()

    def set_exception(self, e):
        self._exc = e
        self._done = True
        self._fire()

    def _fire(self):
        from .distributed import _sim_as_rank
        cbs, self._cbs = self._cbs, []
        old = _CB_LABEL[0]
        if self._label is not None:
            _CB_LABEL[0] = self._label
        try:
            for cb in cbs:
                with _sim_as_rank(self._owner):
                    cb(self)
        finally:
            _CB_LABEL[0] = old

    def add_done_callback(self, cb):
        if self._done:
            cb(self)
        else:
            self._cbs.append(cb)

    def then(self, cb):
        child = Future(owner=self._owner)
        child._label = self._label
        if self._label is None:
            child._inherit = self

        def run(parent):
            try:
                child.set_result(cb(parent))
            except Exception as e:  # noqa: BLE001
                child.set_exception(e)
        self.add_done_callback(run)
        return child


class Future(BaseFuture):
    """torch.futures.Future"""


def collect_all(futures):
    out = Future()
    futures = list(futures)
    remaining = [len(futures)]
    if not futures:
        out.set_result([])
        return out

    def cb(_):
        remaining[0] -= 1
        if remaining[0] == 0:
            out.set_result(futures)
    for f in futures:
        f.add_done_callback(cb)
    return out


def wait_all(futures):
    return [f.wait() for f in futures]
