from . import amp  # noqa: F401


def is_available():
    return False


def device_count():
    return 0
