class GradScaler:
    def __init__(self, init_scale=65536.0, enabled=True):
        self._scale = init_scale

    def get_scale(self):
        return self._scale
