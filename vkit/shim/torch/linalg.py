"""LAPACK contract stubs: inv / eigh / eig.

* concrete argument to `inv`: exact Gauss-Jordan over the rationals;
* argument provably equal (under the path condition) to a matrix registered
  with `register_inverse`: the registered closed form;
* otherwise: fresh symbols, memoised with congruence -- a later call whose
  argument is provably equal to an earlier argument gets the same symbols.

Every call is logged (`LOG`) so harnesses can discharge argument-congruence
obligations (implementation vs reference) before comparing results.
"""

from __future__ import annotations

from fractions import Fraction

import numpy as np

from vkit import symex
from vkit.symex import NotEncodable, SymNum

from . import _tensor as T

REGISTERED: list = []   # (M array, Minv array)
MEMO: dict = {'inv': [], 'eigh': []}
LOG: list = []


def reset():
    REGISTERED.clear()
    MEMO['inv'].clear()
    MEMO['eigh'].clear()
    LOG.clear()


def register_inverse(m, minv):
    """m, minv: Tensors or nested lists of scalars."""
    a = m.a if isinstance(m, T.Tensor) else np.array(m, dtype=object)
    b = minv.a if isinstance(minv, T.Tensor) else np.array(minv, dtype=object)
    REGISTERED.append((a, b))


def _same(x, y) -> bool:
    if isinstance(x, SymNum) and isinstance(y, SymNum):
        return x.e.get_id() == y.e.get_id()
    if isinstance(x, SymNum) or isinstance(y, SymNum):
        return False
    return x == y


def _congruent(a: np.ndarray, b: np.ndarray) -> bool:
    if a.shape != b.shape:
        return False
    fa, fb = a.reshape(-1), b.reshape(-1)
    diff = [(x, y) for x, y in zip(fa, fb) if not _same(x, y)]
    if not diff:
        return True
    if not symex.have_engine() or symex.engine().concrete is not None:
        return False
    if any((not isinstance(x, SymNum)) and (not isinstance(y, SymNum)) for x, y in diff):
        return False  # two different constants
    eng = symex.engine()
    import z3
    neq = z3.Or([symex._toreal(symex._z(x)) != symex._toreal(symex._z(y)) for x, y in diff])
    eng.flush_divisions()
    r, _ = eng._one_shot(eng.pc + [neq], min(eng.oblige_timeout_ms, 10000))
    return r == 'unsat'


def _is_concrete(a: np.ndarray) -> bool:
    return not any(isinstance(v, SymNum) for v in a.reshape(-1))


def _gauss_inv(a: np.ndarray) -> np.ndarray:
    n = a.shape[0]
    m = [[Fraction(a[i, j]) for j in range(n)] + [Fraction(int(i == j)) for j in range(n)]
         for i in range(n)]
    for c in range(n):
        p = next((r for r in range(c, n) if m[r][c] != 0), None)
        if p is None:
            raise RuntimeError('linalg.inv: The diagonal element is zero, '
                               'the inversion could not be completed because '
                               'the input matrix is singular.')
        m[c], m[p] = m[p], m[c]
        pv = m[c][c]
        m[c] = [x / pv for x in m[c]]
        for r in range(n):
            if r != c and m[r][c] != 0:
                f = m[r][c]
                m[r] = [x - f * y for x, y in zip(m[r], m[c])]
    out = np.empty((n, n), dtype=object)
    for i in range(n):
        for j in range(n):
            out[i, j] = m[i][n + j]
    return out


def _fresh(shape, tag):
    if not symex.have_engine() or symex.engine().concrete is not None:
        raise NotEncodable(f'{tag}: no closed form for a concrete argument')
    eng = symex.engine()
    base = eng.autoname(tag)
    a = np.empty(shape, dtype=object)
    for idx in np.ndindex(*shape):
        a[idx] = eng.fresh_real(base + '_' + '_'.join(map(str, idx)))
    return a


def _check_square(t, fn):
    if not isinstance(t, T.Tensor):
        raise TypeError(f'{fn}: expected a Tensor')
    if t.a.ndim != 2 or t.a.shape[0] != t.a.shape[1]:
        raise RuntimeError(f'linalg.{fn}: A must be batches of square matrices, '
                           f'but they are {tuple(t.a.shape)}')
    if t.dtype in (T.float16, T.bfloat16):
        raise RuntimeError(f'linalg.{fn}: Low precision dtypes not supported. Got {t.dtype}')


def inv(t):
    _check_square(t, 'inv')
    a = t.a
    for (m, mi) in REGISTERED:
        if _congruent(a, m):
            out = t._new(mi.copy())
            LOG.append({'fn': 'inv', 'arg': a.copy(), 'out': out.a, 'how': 'closed-form'})
            return out
    if _is_concrete(a) and T.FLOAT_MODE[0]:
        f = np.array([[float(v) for v in row] for row in a.tolist()], dtype=np.float64)
        try:
            fi = np.linalg.inv(f)
        except np.linalg.LinAlgError:
            raise RuntimeError('linalg.inv: singular matrix') from None
        out = np.empty(fi.shape, dtype=object)
        for i in range(fi.shape[0]):
            for j in range(fi.shape[1]):
                out[i, j] = float(fi[i, j])
        LOG.append({'fn': 'inv', 'arg': a.copy(), 'out': out, 'how': 'numeric'})
        return t._new(out)
    if _is_concrete(a):
        out = t._new(_gauss_inv(a))
        LOG.append({'fn': 'inv', 'arg': a.copy(), 'out': out.a, 'how': 'exact'})
        return out
    for (m, mi) in MEMO['inv']:
        if _congruent(a, m):
            out = t._new(mi.copy())
            LOG.append({'fn': 'inv', 'arg': a.copy(), 'out': out.a, 'how': 'congruent'})
            return out
    r = _fresh(a.shape, 'inv')
    if _congruent(a, a.T):
        # the inverse of a symmetric matrix is symmetric
        for i in range(a.shape[0]):
            for j in range(i):
                r[i, j] = r[j, i]
    MEMO['inv'].append((a.copy(), r))
    LOG.append({'fn': 'inv', 'arg': a.copy(), 'out': r, 'how': 'fresh'})
    return t._new(r.copy())


def _numeric_eigh(a):
    """Concrete argument: float64 LAPACK through numpy (validation and
    value-agnostic trace extraction only; never part of a symbolic verdict)."""
    f = np.array([[float(v) for v in row] for row in a.tolist()], dtype=np.float64)
    d, q = np.linalg.eigh(f)
    dd = np.empty(d.shape, dtype=object)
    qq = np.empty(q.shape, dtype=object)
    conv = float if T.FLOAT_MODE[0] else (lambda v: Fraction(float(v)))
    for i in range(d.shape[0]):
        dd[i] = conv(d[i])
        for j in range(q.shape[1]):
            qq[i, j] = conv(q[i, j])
    return dd, qq


def eigh(t, UPLO='L'):  # noqa: N803
    _check_square(t, 'eigh')
    a = t.a
    n = a.shape[0]
    if _is_concrete(a):
        d, q = _numeric_eigh(a)
        LOG.append({'fn': 'eigh', 'arg': a.copy(), 'out': (d, q), 'how': 'numeric'})
        return t._new(d), t._new(q)
    for (m, (d, q)) in MEMO['eigh']:
        if _congruent(a, m):
            LOG.append({'fn': 'eigh', 'arg': a.copy(), 'out': (d, q), 'how': 'congruent'})
            return t._new(d.copy()), t._new(q.copy())
    d = _fresh((n,), 'eighd')
    q = _fresh((n, n), 'eighq')
    MEMO['eigh'].append((a.copy(), (d, q)))
    LOG.append({'fn': 'eigh', 'arg': a.copy(), 'out': (d, q), 'how': 'fresh'})
    return t._new(d.copy()), t._new(q.copy())


def eig(t):
    # complex results are outside the encoding; the symmetric path never
    # reaches this function (see DESIGN C01 X)
    raise NotEncodable('torch.linalg.eig (complex eigendecomposition)')


def cholesky(t):
    raise NotEncodable('torch.linalg.cholesky')


def solve(a, b):
    return inv(a) @ b
