"""symtorch tensors: numpy object arrays of exact scalars (Fraction / SymNum).

Only what `kfac` (and near refactors of it) needs.  View semantics, contiguity
and shape errors follow torch; values are exact reals (assumption A-real);
dtype and device are tags.  Every in-place write bumps a version counter that
is shared by all views of the same storage.
"""

from __future__ import annotations

import itertools
from fractions import Fraction
from typing import Any

import numpy as np
from numpy.lib.stride_tricks import sliding_window_view

from vkit import symex
from vkit.symex import NotEncodable, SymNum, lift


# ---------------------------------------------------------------- dtypes
class dtype:
    def __init__(self, name, itemsize, is_float, rank):
        self.name, self.itemsize = name, itemsize
        self.is_floating_point, self.rank = is_float, rank

    def __repr__(self):
        return f'torch.{self.name}'

    def __reduce__(self):
        return (_dtype_by_name, (self.name,))


float16 = half = dtype('float16', 2, True, 1)
bfloat16 = dtype('bfloat16', 2, True, 1)
float32 = dtype('float32', 4, True, 2)
float64 = double = dtype('float64', 8, True, 3)
int64 = long = dtype('int64', 8, False, 0)
int32 = dtype('int32', 4, False, 0)
bool_ = dtype('bool', 1, False, 0)
_ALL = [float16, bfloat16, float32, float64, int64, int32, bool_]


def _dtype_by_name(n):
    for d in _ALL:
        if d.name == n:
            return d
    raise KeyError(n)


_default_dtype = [float32]


def set_default_dtype(d):
    _default_dtype[0] = d


def get_default_dtype():
    return _default_dtype[0]


def promote(a: dtype, b: dtype) -> dtype:
    if a is b:
        return a
    if a.is_floating_point and not b.is_floating_point:
        return a
    if b.is_floating_point and not a.is_floating_point:
        return b
    if a.rank == b.rank:  # float16 + bfloat16
        return float32 if a.is_floating_point else a
    return a if a.rank > b.rank else b


class device:
    def __init__(self, type_='cpu', index=None):
        if isinstance(type_, device):
            type_, index = type_.type, type_.index
        if isinstance(type_, str) and ':' in type_:
            type_, i = type_.split(':')
            index = int(i)
        self.type, self.index = type_, index

    def __eq__(self, o):
        o = device(o) if isinstance(o, str) else o
        return isinstance(o, device) and (self.type, self.index) == (o.type, o.index)

    def __hash__(self):
        return hash((self.type, self.index))

    def __repr__(self):
        return f"device(type='{self.type}')"


_CPU = device('cpu')


class Size(tuple):
    def numel(self):
        n = 1
        for s in self:
            n *= s
        return n

    def __repr__(self):
        return f'torch.Size({list(self)})'


FLOAT_MODE = [False]   # value-agnostic runs (trace extraction): plain floats


def _garbage():
    """Content of uninitialised memory: an arbitrary value."""
    if FLOAT_MODE[0]:
        return 0.0
    if symex.have_engine() and symex.engine().concrete is None:
        e = symex.engine()
        return e.fresh_real(e.autoname('uninit'))
    return Fraction(0)


def _obj(shape, fill=None):
    if FLOAT_MODE[0] and fill is not None and not isinstance(fill, SymNum):
        fill = float(fill)
    a = np.empty(shape, dtype=object)
    if fill is None:
        flat = a.reshape(-1) if a.size else a
        for i in range(a.size):
            flat[i] = _garbage()
    else:
        a.fill(fill)
    return a


def _norm_scalar(x):
    if isinstance(x, SymNum):
        return x
    if FLOAT_MODE[0] and not isinstance(x, symex.SymBool):
        return float(x)
    if isinstance(x, (symex.SymBool,)):
        raise NotEncodable('boolean scalar in tensor arithmetic')
    return lift(x)


_ids = itertools.count(1)


class Tensor:
    __array_priority__ = 10000
    __hash__ = object.__hash__

    def __init__(self, a: np.ndarray, dt: dtype | None = None,
                 dev: device | None = None, ver: list | None = None,
                 base: 'Tensor | None' = None):
        self.a = a
        self.dtype = dt if dt is not None else (
            int64 if a.dtype != object else _default_dtype[0])
        self.device = dev if dev is not None else _CPU
        self._ver = ver if ver is not None else [0]
        self._base = base
        self.requires_grad = False
        self.grad: Tensor | None = None
        self._id = next(_ids)

    # ------------------------------------------------------------ helpers
    def _view(self, a) -> 'Tensor':
        t = Tensor(a, self.dtype, self.device, self._ver,
                   self._base if self._base is not None else self)
        return t

    def _new(self, a, dt=None) -> 'Tensor':
        return Tensor(a, dt if dt is not None else self.dtype, self.device)

    def _bump(self):
        self._ver[0] += 1

    @property
    def _version(self):
        return self._ver[0]

    @property
    def is_int(self):
        return self.a.dtype != object

    # ------------------------------------------------------------ metadata
    @property
    def shape(self):
        return Size(self.a.shape)

    def size(self, dim=None):
        if dim is None:
            return Size(self.a.shape)
        return self.a.shape[dim]

    def dim(self):
        return self.a.ndim

    ndimension = dim

    @property
    def ndim(self):
        return self.a.ndim

    def nelement(self):
        return int(self.a.size)

    numel = nelement

    def element_size(self):
        return self.dtype.itemsize

    def is_contiguous(self):
        return bool(self.a.flags['C_CONTIGUOUS'])

    def stride(self, dim=None):
        isz = self.a.itemsize
        st = tuple(s // isz for s in self.a.strides)
        return st if dim is None else st[dim]

    def data_ptr(self):
        return self.a.__array_interface__['data'][0]

    def __len__(self):
        if self.a.ndim == 0:
            raise TypeError('len() of a 0-d tensor')
        return self.a.shape[0]

    def is_floating_point(self):
        return self.dtype.is_floating_point

    @property
    def is_cuda(self):
        return self.device.type == 'cuda'

    @property
    def data(self):
        t = self._view(self.a)
        return t

    @property
    def real(self):
        return self

    @property
    def T(self):
        return self._view(self.a.T)

    def detach(self):
        return self._view(self.a)

    def __repr__(self):
        return f'symtensor(shape={tuple(self.a.shape)}, dtype={self.dtype})'

    # ------------------------------------------------------------ conversion
    def to(self, *args, **kw):
        dt, dev = kw.get('dtype'), kw.get('device')
        for x in args:
            if isinstance(x, dtype):
                dt = x
            elif isinstance(x, (device, str)):
                dev = device(x)
            elif isinstance(x, Tensor):
                dt, dev = x.dtype, x.device
            elif x is None:
                pass
            else:
                raise NotEncodable(f'Tensor.to({x!r})')
        if dev is not None:
            dev = device(dev)
        same_dt = dt is None or dt is self.dtype
        same_dev = dev is None or dev == self.device
        if same_dt and same_dev:
            return self
        if dt is not None and (dt.is_floating_point != self.dtype.is_floating_point):
            if dt.is_floating_point:
                a = np.empty(self.a.shape, dtype=object)
                for idx in np.ndindex(*self.a.shape):
                    a[idx] = int(self.a[idx])
                return Tensor(a, dt, dev or self.device)
            raise NotEncodable('float -> int cast')
        t = Tensor(self.a.copy(), dt if dt is not None else self.dtype,
                   dev if dev is not None else self.device)
        return t

    def type(self, dt=None):
        if dt is None:
            return f'torch.{self.dtype.name}'
        return self.to(dt)

    def float(self):
        return self.to(float32)

    def double(self):
        return self.to(float64)

    def half(self):
        return self.to(float16)

    def bfloat16(self):
        return self.to(bfloat16)

    def cpu(self):
        return self.to(_CPU)

    def cuda(self, *a, **k):
        return self.to(device('cuda', 0))

    def clone(self):
        t = self._new(self.a.copy())
        return t

    def contiguous(self):
        if self.is_contiguous():
            return self
        return self._new(np.ascontiguousarray(self.a))

    def item(self):
        if self.a.size != 1:
            raise RuntimeError(
                'a Tensor with %d elements cannot be converted to Scalar'
                % self.a.size)
        v = self.a.reshape(-1)[0]
        if self.is_int:
            return int(v)
        return v

    def tolist(self):
        return self.a.tolist()

    def __bool__(self):
        v = self.item()
        return bool(v != 0)

    def __float__(self):
        v = self.item()
        if isinstance(v, SymNum):
            raise NotEncodable('float() of a symbolic tensor element')
        return float(v)

    def __int__(self):
        return int(self.item())

    def __index__(self):
        if not self.is_int:
            raise TypeError('only integer tensors can be an index')
        return int(self.item())

    # ------------------------------------------------------------ shape ops
    def view(self, *shape):
        if len(shape) == 1 and isinstance(shape[0], dtype):
            raise NotEncodable('view(dtype)')
        shape = _shape_arg(shape)
        v = self.a.view()
        try:
            v.shape = _infer_shape(shape, self.a.size)
        except AttributeError:
            raise RuntimeError(
                'view size is not compatible with input tensor\'s size and '
                'stride (at least one dimension spans across two contiguous '
                'subspaces). Use .reshape(...) instead.') from None
        except ValueError as e:
            raise RuntimeError(f"shape '{list(shape)}' is invalid for input "
                               f'of size {self.a.size}') from e
        return self._view(v)

    def view_as(self, other):
        return self.view(other.size())

    def reshape(self, *shape):
        shape = _infer_shape(_shape_arg(shape), self.a.size)
        v = self.a.view()
        try:
            v.shape = shape
            return self._view(v)
        except AttributeError:
            return self._new(self.a.reshape(shape).copy())
        except ValueError as e:
            raise RuntimeError(f"shape '{list(shape)}' is invalid for input "
                               f'of size {self.a.size}') from e

    def flatten(self, start_dim=0, end_dim=-1):
        nd = self.a.ndim
        if nd == 0:
            return self.reshape(1)
        s, e = start_dim % nd, end_dim % nd
        shp = list(self.a.shape)
        new = shp[:s] + [int(np.prod(shp[s:e + 1]))] + shp[e + 1:]
        return self.reshape(new)

    def t(self):
        if self.a.ndim > 2:
            raise RuntimeError('t() expects a tensor with <= 2 dimensions')
        return self._view(self.a.T)

    def transpose(self, d0, d1):
        return self._view(self.a.swapaxes(d0, d1))

    def transpose_(self, d0, d1):
        self.a = self.a.swapaxes(d0, d1)
        return self

    def permute(self, *dims):
        dims = _shape_arg(dims)
        return self._view(self.a.transpose(dims))

    def squeeze(self, dim=None):
        if dim is None:
            return self._view(self.a.squeeze())
        if self.a.shape[dim] != 1:
            return self
        return self._view(self.a.squeeze(dim))

    def unsqueeze(self, dim):
        return self._view(np.expand_dims(self.a, dim))

    def expand(self, *shape):
        shape = _shape_arg(shape)
        shape = tuple(self.a.shape[i - (len(shape) - self.a.ndim)] if s == -1 else s
                      for i, s in enumerate(shape))
        return self._view(np.broadcast_to(self.a, shape))

    def unfold(self, dimension, size, step):
        d = dimension % self.a.ndim
        if size > self.a.shape[d]:
            raise RuntimeError(
                f'maximum size for tensor at dimension {d} is '
                f'{self.a.shape[d]} but size is {size}')
        w = sliding_window_view(self.a, size, axis=d)
        sl = [slice(None)] * w.ndim
        sl[d] = slice(None, None, step)
        return self._view(w[tuple(sl)])

    def split(self, split_size, dim=0):
        return split(self, split_size, dim)

    def chunk(self, chunks, dim=0):
        n = self.a.shape[dim]
        sz = -(-n // chunks)
        return split(self, sz, dim)

    def narrow(self, dim, start, length):
        sl = [slice(None)] * self.a.ndim
        sl[dim] = slice(start, start + length)
        return self._view(self.a[tuple(sl)])

    # ------------------------------------------------------------ creation
    def new(self, *size):
        size = _shape_arg(size)
        return self._new(_obj(size))

    def new_empty(self, *size, dtype=None, device=None):
        size = _shape_arg(size)
        return Tensor(_obj(size), dtype or self.dtype,
                      globals()['device'](device) if device is not None else self.device)

    def new_ones(self, *size, dtype=None, device=None):
        size = _shape_arg(size)
        return Tensor(_obj(size, Fraction(1)), dtype or self.dtype, self.device)

    def new_zeros(self, *size, dtype=None, device=None):
        size = _shape_arg(size)
        return Tensor(_obj(size, Fraction(0)), dtype or self.dtype, self.device)

    def new_full(self, size, value, dtype=None, device=None):
        return Tensor(_obj(_shape_arg((size,)), _norm_scalar(value)),
                      dtype or self.dtype, self.device)

    def new_tensor(self, data, dtype=None, device=None):
        return tensor(data, dtype=dtype or self.dtype)

    # ------------------------------------------------------------ in-place
    def fill_(self, v):
        if self.is_int:
            self.a[...] = int(v)
        else:
            self.a[...] = _norm_scalar(v)
        self._bump()
        return self

    def zero_(self):
        return self.fill_(0)

    def copy_(self, src):
        src = src if isinstance(src, Tensor) else tensor(src)
        self.a[...] = np.broadcast_to(src.a, self.a.shape)
        self._bump()
        return self

    def _inplace(self, r):
        self.a[...] = r.a
        self._bump()
        return self

    def add_(self, o, alpha=1):
        return self._inplace(self + (o * alpha if alpha != 1 else o))

    def sub_(self, o, alpha=1):
        return self._inplace(self - (o * alpha if alpha != 1 else o))

    def mul_(self, o):
        return self._inplace(self * o)

    def div_(self, o):
        return self._inplace(self / o)

    def clamp_(self, min=None, max=None):  # noqa: A002
        return self._inplace(clamp(self, min=min, max=max))

    def __iadd__(self, o):
        return self.add_(o)

    def __isub__(self, o):
        return self.sub_(o)

    def __imul__(self, o):
        return self.mul_(o)

    def __itruediv__(self, o):
        return self.div_(o)

    # ------------------------------------------------------------ indexing
    def __getitem__(self, idx):
        nidx, adv = _conv_index(idx)
        r = self.a[nidx]
        if not isinstance(r, np.ndarray):
            r = np.array(r, dtype=self.a.dtype if self.is_int else object)
            if not adv:
                # 0-d view semantics are not needed by the code under test
                return self._new(r)
        if adv:
            return self._new(np.array(r, dtype=self.a.dtype, copy=True))
        return self._view(r)

    def __setitem__(self, idx, val):
        nidx, _ = _conv_index(idx)
        if isinstance(val, Tensor):
            v = val.a
        elif isinstance(val, np.ndarray):
            v = val
        else:
            v = int(val) if self.is_int else _norm_scalar(val)
        self.a[nidx] = v
        self._bump()

    def __iter__(self):
        if self.a.ndim == 0:
            raise TypeError('iteration over a 0-d tensor')
        for i in range(self.a.shape[0]):
            yield self[i]

    # ------------------------------------------------------------ arithmetic
    def _coerce(self, o):
        if isinstance(o, Tensor):
            return o.a, o.dtype
        if isinstance(o, np.ndarray):
            raise NotEncodable('numpy array in tensor arithmetic')
        if isinstance(o, (int, Fraction, SymNum)) or type(o) is float:
            return _norm_scalar(o), None
        return None, None

    def _binop(self, o, f, reverse=False):
        b, bdt = self._coerce(o)
        if b is None:
            return NotImplemented
        if self.is_int and bdt is None and isinstance(o, int):
            r = f(o, self.a) if reverse else f(self.a, o)
            return Tensor(r, self.dtype, self.device)
        a = self.a if not self.is_int else self.a.astype(object)
        if isinstance(b, np.ndarray) and b.dtype != object:
            b = b.astype(object)
        try:
            r = f(b, a) if reverse else f(a, b)
        except ValueError as e:
            raise RuntimeError(f'shape mismatch: {e}') from e
        if not isinstance(r, np.ndarray):
            r = np.array(r, dtype=object)
        dt = self.dtype
        if bdt is not None:
            # 0-d tensors do not participate in promotion within a category
            dt = promote(self.dtype, bdt)
        elif self.is_int and not isinstance(o, int):
            dt = _default_dtype[0]
        return Tensor(r, dt, self.device)

    def __add__(self, o):
        return self._binop(o, np.add)

    def __radd__(self, o):
        return self._binop(o, np.add, True)

    def __sub__(self, o):
        return self._binop(o, np.subtract)

    def __rsub__(self, o):
        return self._binop(o, np.subtract, True)

    def __mul__(self, o):
        return self._binop(o, np.multiply)

    def __rmul__(self, o):
        return self._binop(o, np.multiply, True)

    def __truediv__(self, o):
        r = self._binop(o, _div)
        if r is not NotImplemented and self.is_int:
            r.dtype = _default_dtype[0]
        return r

    def __rtruediv__(self, o):
        return self._binop(o, _div, True)

    def __neg__(self):
        return self._new(-self.a)

    def __pow__(self, n):
        if not isinstance(n, int) or n < 0:
            raise NotEncodable('tensor power')
        r = self._new(_obj(self.a.shape, Fraction(1)))
        for _ in range(n):
            r = r * self
        return r

    def __matmul__(self, o):
        return matmul(self, o)

    def __rmatmul__(self, o):
        return matmul(o, self)

    add = __add__
    sub = __sub__
    mul = __mul__
    div = __truediv__
    matmul = __matmul__
    mm = __matmul__

    def __eq__(self, o):  # type: ignore
        return _cmp(self, o, lambda a, b: a == b)

    def __ne__(self, o):  # type: ignore
        return _cmp(self, o, lambda a, b: a != b)

    def __lt__(self, o):
        return _cmp(self, o, lambda a, b: a < b)

    def __le__(self, o):
        return _cmp(self, o, lambda a, b: a <= b)

    def __gt__(self, o):
        return _cmp(self, o, lambda a, b: a > b)

    def __ge__(self, o):
        return _cmp(self, o, lambda a, b: a >= b)

    # ------------------------------------------------------------ reductions
    def sum(self, dim=None, keepdim=False):
        if dim is None:
            tot: Any = Fraction(0) if not self.is_int else 0
            for v in self.a.reshape(-1):
                tot = tot + v
            return self._new(np.array(tot, dtype=self.a.dtype if self.is_int else object))
        a = self.a if self.a.size else self.a
        r = np.add.reduce(a, axis=dim, keepdims=keepdim) if a.shape[dim] \
            else _obj(tuple(s for i, s in enumerate(a.shape) if i != dim % a.ndim), Fraction(0))
        if not isinstance(r, np.ndarray):
            r = np.array(r, dtype=object)
        return self._new(r)

    def mean(self, dim=None, keepdim=False):
        n = self.a.size if dim is None else self.a.shape[dim]
        return self.sum(dim, keepdim) / n

    def square(self):
        return self * self

    def abs(self):
        return self._new(np.vectorize(abs, otypes=[object])(self.a))

    def clamp(self, min=None, max=None):  # noqa: A002
        return clamp(self, min=min, max=max)

    def diag(self, diagonal=0):
        return diag(self, diagonal)

    def outer(self, o):
        return outer(self, o)

    def trace(self):
        return diag(self).sum()

    def take(self, index):
        return take(self, index)

    def index_select(self, dim, index):
        return index_select(self, dim, index)

    def numpy(self):
        raise NotEncodable('Tensor.numpy()')

    def requires_grad_(self, flag=True):
        self.requires_grad = flag
        return self

    def backward(self, *a, **k):
        raise NotEncodable('autograd is not modelled')

    def __reduce__(self):
        return (_rebuild, (self.a.tolist(), tuple(self.a.shape), self.dtype.name,
                           self.is_int))

    def __deepcopy__(self, memo):
        t = Tensor(self.a.copy(), self.dtype, self.device)
        t.requires_grad = self.requires_grad
        return t


def _rebuild(lst, shape, dtname, is_int):
    a = np.array(lst, dtype=np.int64 if is_int else object).reshape(shape)
    return Tensor(a, _dtype_by_name(dtname))


class Parameter(Tensor):
    def __init__(self, data: Tensor | None = None, requires_grad: bool = True):
        if data is None:
            data = empty(0)
        Tensor.__init__(self, data.a, data.dtype, data.device, data._ver,
                        data._base)
        self.requires_grad = requires_grad

    def __repr__(self):
        return 'Parameter(' + Tensor.__repr__(self) + ')'

    def __deepcopy__(self, memo):
        p = Parameter(Tensor(self.a.copy(), self.dtype, self.device),
                      self.requires_grad)
        return p


# ---------------------------------------------------------------- helpers
def _div(a, b):
    return _elementwise_div(a, b)


def _elementwise_div(a, b):
    def d(x, y):
        if isinstance(y, SymNum) or isinstance(x, SymNum):
            return x / y
        if FLOAT_MODE[0]:
            return float(x) / float(y) if y != 0 else float('inf')
        if y == 0:
            # torch returns inf/nan; outside the real-number abstraction
            if symex.have_engine() and symex.engine().concrete is None:
                symex.engine().oblige('nonzero-denominator', False)
            raise ZeroDivisionError('tensor division by concrete zero')
        return Fraction(x) / Fraction(y)
    return np.frompyfunc(d, 2, 1)(a, b)


def _cmp(a, o, f):
    if isinstance(o, Tensor):
        b = o.a
    elif isinstance(o, (int, Fraction, SymNum)) or type(o) is float:
        b = _norm_scalar(o)
    else:
        return NotImplemented
    r = np.frompyfunc(f, 2, 1)(a.a, b)
    if not isinstance(r, np.ndarray):
        r = np.array(r, dtype=object)
    return Tensor(r, bool_, a.device)


def _shape_arg(shape):
    if len(shape) == 1 and isinstance(shape[0], (tuple, list, Size)):
        shape = tuple(shape[0])
    out = []
    for s in shape:
        if isinstance(s, Tensor):
            s = s.item()
        out.append(int(s) if not isinstance(s, int) else s)
    return tuple(out)


def _infer_shape(shape, total):
    if -1 in shape:
        known = 1
        for s in shape:
            if s != -1:
                known *= s
        if shape.count(-1) > 1:
            raise RuntimeError('only one dimension can be inferred')
        if known == 0 or total % known:
            raise RuntimeError(
                f"shape '{list(shape)}' is invalid for input of size {total}")
        shape = tuple(total // known if s == -1 else s for s in shape)
    n = 1
    for s in shape:
        n *= s
    if n != total:
        raise RuntimeError(
            f"shape '{list(shape)}' is invalid for input of size {total}")
    return shape


def _conv_index(idx):
    adv = False
    if not isinstance(idx, tuple):
        idx = (idx,)
    out = []
    for i in idx:
        if isinstance(i, Tensor):
            if i.dtype is bool_:
                out.append(np.array(i.a.tolist(), dtype=bool))
                adv = True
            elif not i.is_int:
                raise IndexError('tensors used as indices must be long or bool')
            elif i.a.ndim == 0:
                out.append(int(i.a))
            else:
                out.append(i.a)
                adv = True
        elif isinstance(i, (list, np.ndarray)):
            out.append(np.asarray(i))
            adv = True
        elif isinstance(i, SymNum):
            out.append(i.__index__())
        else:
            out.append(i)
    return tuple(out), adv


# ---------------------------------------------------------------- functions
def _dd(dtype_, device_):
    return (dtype_ if dtype_ is not None else _default_dtype[0],
            device(device_) if device_ is not None else _CPU)


def tensor(data, dtype=None, device=None, requires_grad=False):  # noqa: A002
    if isinstance(data, Tensor):
        return data.clone()
    arr = np.array(data, dtype=object)
    flat = arr.reshape(-1)
    all_int = all(isinstance(v, (int, np.integer)) and not isinstance(v, bool)
                  for v in flat) and arr.size > 0
    if dtype is None and all_int:
        t = Tensor(np.array(data, dtype=np.int64), int64)
    elif dtype is not None and not dtype.is_floating_point:
        t = Tensor(np.array(data, dtype=np.int64), dtype)
    else:
        for i in range(flat.size):
            flat[i] = _norm_scalar(flat[i])
        t = Tensor(arr, *_dd(dtype, device))
    t.requires_grad = requires_grad
    return t


def as_tensor(data, dtype=None, device=None):  # noqa: A002
    return data if isinstance(data, Tensor) else tensor(data, dtype=dtype)


def empty(*size, dtype=None, device=None, requires_grad=False):  # noqa: A002
    dt, dev = _dd(dtype, device)
    return Tensor(_obj(_shape_arg(size)), dt, dev)


def zeros(*size, dtype=None, device=None, requires_grad=False):  # noqa: A002
    dt, dev = _dd(dtype, device)
    return Tensor(_obj(_shape_arg(size), Fraction(0)), dt, dev)


def ones(*size, dtype=None, device=None, requires_grad=False):  # noqa: A002
    dt, dev = _dd(dtype, device)
    return Tensor(_obj(_shape_arg(size), Fraction(1)), dt, dev)


def full(size, fill_value, dtype=None, device=None):  # noqa: A002
    dt, dev = _dd(dtype, device)
    return Tensor(_obj(_shape_arg((size,)), _norm_scalar(fill_value)), dt, dev)


def eye(n, m=None, dtype=None, device=None):  # noqa: A002
    dt, dev = _dd(dtype, device)
    m = n if m is None else m
    a = _obj((n, m), Fraction(0))
    for i in range(min(n, m)):
        a[i, i] = Fraction(1)
    return Tensor(a, dt, dev)


def arange(*args, dtype=None, device=None):  # noqa: A002
    return Tensor(np.arange(*args, dtype=np.int64), int64)


def empty_like(t, dtype=None, device=None):  # noqa: A002
    return Tensor(_obj(t.a.shape), dtype or t.dtype, t.device)


def zeros_like(t, dtype=None, device=None):  # noqa: A002
    if t.is_int:
        return Tensor(np.zeros(t.a.shape, dtype=np.int64), t.dtype, t.device)
    return Tensor(_obj(t.a.shape, Fraction(0)), dtype or t.dtype, t.device)


def ones_like(t, dtype=None, device=None):  # noqa: A002
    return Tensor(_obj(t.a.shape, Fraction(1)), dtype or t.dtype, t.device)


def cat(tensors, dim=0, out=None):
    tensors = list(tensors)
    if not tensors:
        raise RuntimeError('torch.cat(): expected a non-empty list of Tensors')
    nd = tensors[0].a.ndim
    for t in tensors:
        if t.a.ndim != nd:
            raise RuntimeError('Tensors must have same number of dimensions')
    d = dim % nd
    for t in tensors[1:]:
        for i in range(nd):
            if i != d and t.a.shape[i] != tensors[0].a.shape[i]:
                raise RuntimeError(
                    'Sizes of tensors must match except in dimension '
                    f'{d}. Expected size {tensors[0].a.shape[i]} but got size '
                    f'{t.a.shape[i]}')
    dt = tensors[0].dtype
    for t in tensors[1:]:
        dt = promote(dt, t.dtype)
    arrs = [t.a if t.a.dtype == object or not dt.is_floating_point
            else t.a.astype(object) for t in tensors]
    return Tensor(np.concatenate(arrs, axis=d), dt, tensors[0].device)


concat = cat


def stack(tensors, dim=0):
    tensors = list(tensors)
    return Tensor(np.stack([t.a for t in tensors], axis=dim),
                  tensors[0].dtype, tensors[0].device)


def split(t, split_size, dim=0):
    n = t.a.shape[dim]
    out = []
    if isinstance(split_size, int):
        if split_size <= 0:
            raise RuntimeError('split expects split_size be non-negative')
        bounds = [(s, min(s + split_size, n)) for s in range(0, n, split_size)]
    else:
        if sum(split_size) != n:
            raise RuntimeError('split_with_sizes expects split_sizes to sum '
                               'exactly to the dimension size')
        bounds, s = [], 0
        for k in split_size:
            bounds.append((s, s + k))
            s += k
    for s, e in bounds:
        sl = [slice(None)] * t.a.ndim
        sl[dim] = slice(s, e)
        out.append(t._view(t.a[tuple(sl)]))
    return tuple(out)


def chunk(t, chunks, dim=0):
    return t.chunk(chunks, dim)


def diag(t, diagonal=0):
    if t.a.ndim == 1:
        n = t.a.shape[0] + abs(diagonal)
        a = _obj((n, n), Fraction(0))
        for i in range(t.a.shape[0]):
            if diagonal >= 0:
                a[i, i + diagonal] = t.a[i]
            else:
                a[i - diagonal, i] = t.a[i]
        return t._new(a)
    if t.a.ndim == 2:
        return t._new(np.array(np.diagonal(t.a, diagonal), dtype=object, copy=True))
    raise RuntimeError('diag(): Supports 1D or 2D tensors')


def outer(a, b):
    if a.a.ndim != 1 or b.a.ndim != 1:
        raise RuntimeError('outer: Expected 1-D argument')
    r = np.multiply.outer(a.a, b.a)
    return Tensor(r, promote(a.dtype, b.dtype), a.device)


ger = outer


def take(t, index):
    """torch.take: index into the logically flattened (row-major) input."""
    flat = t.a.reshape(-1)
    idx = index.a if isinstance(index, Tensor) else np.asarray(index)
    if (idx < -flat.size).any() or (idx >= flat.size).any():
        raise IndexError('take(): index out of range')
    return t._new(np.array(flat[idx], dtype=t.a.dtype, copy=True))


def index_select(t, dim, index):
    idx = index.a if isinstance(index, Tensor) else np.asarray(index)
    return t._new(np.take(t.a, idx, axis=dim))


def matmul(a, b, out=None):
    if out is not None:
        r = matmul(a, b)
        if tuple(out.a.shape) != tuple(r.a.shape):
            out.a = r.a.copy()
        else:
            out.a[...] = r.a
        out._bump()
        return out
    if not isinstance(a, Tensor) or not isinstance(b, Tensor):
        return NotImplemented
    if a.a.ndim == 0 or b.a.ndim == 0:
        raise RuntimeError('both arguments to matmul need to be at least 1D')
    ka = a.a.shape[-1]
    kb = b.a.shape[-2] if b.a.ndim >= 2 else b.a.shape[0]
    if ka != kb:
        raise RuntimeError(
            f'mat1 and mat2 shapes cannot be multiplied '
            f'({tuple(a.a.shape)} and {tuple(b.a.shape)})')
    if a.dtype is not b.dtype:
        raise RuntimeError(
            f'expected m1 and m2 to have the same dtype, but got: '
            f'{a.dtype} != {b.dtype}')
    x = a.a if a.a.dtype == object else a.a.astype(object)
    y = b.a if b.a.dtype == object else b.a.astype(object)
    if ka == 0:
        shp = np.matmul(np.zeros(x.shape), np.zeros(y.shape)).shape
        return Tensor(_obj(shp, Fraction(0)), a.dtype, a.device)
    r = np.matmul(x, y)
    if not isinstance(r, np.ndarray):
        r = np.array(r, dtype=object)
    return Tensor(r, a.dtype, a.device)


mm = matmul


def clamp(t, min=None, max=None):  # noqa: A002
    def f(v):
        if min is not None:
            v = symex.sym_max(v, _norm_scalar(min))
        if max is not None:
            v = symex.sym_min(v, _norm_scalar(max))
        return v
    r = np.frompyfunc(f, 1, 1)(t.a)
    if not isinstance(r, np.ndarray):
        r = np.array(r, dtype=object)
    return t._new(r)


def triu_indices(row, col, offset=0, dtype=None, device=None):  # noqa: A002
    r, c = [], []
    for i in range(row):
        for j in range(max(0, i + offset), col):
            r.append(i)
            c.append(j)
    return Tensor(np.array([r, c], dtype=np.int64).reshape(2, len(r)), int64)


def tril_indices(row, col, offset=0, dtype=None, device=None):  # noqa: A002
    r, c = [], []
    for i in range(row):
        for j in range(0, min(col, i + offset + 1)):
            r.append(i)
            c.append(j)
    return Tensor(np.array([r, c], dtype=np.int64).reshape(2, len(r)), int64)


def triu(t, diagonal=0):
    a = t.a.copy()
    for i in range(a.shape[0]):
        for j in range(a.shape[1]):
            if j - i < diagonal:
                a[i, j] = Fraction(0)
    return t._new(a)


def tril(t, diagonal=0):
    a = t.a.copy()
    for i in range(a.shape[0]):
        for j in range(a.shape[1]):
            if j - i > diagonal:
                a[i, j] = Fraction(0)
    return t._new(a)


def equal(a, b):
    if tuple(a.a.shape) != tuple(b.a.shape):
        return False
    conds = []
    for x, y in zip(a.a.reshape(-1), b.a.reshape(-1)):
        c = (x == y)
        if c is False:
            return False
        conds.append(c)
    r = symex.And(*conds) if conds else True
    return bool(r)


def allclose(a, b, rtol=1e-5, atol=1e-8):
    return equal(a, b)


def is_tensor(x):
    return isinstance(x, Tensor)


def numel(t):
    return t.nelement()


def transpose(t, d0, d1):
    return t.transpose(d0, d1)


def reshape(t, shape):
    return t.reshape(shape)


def flatten(t, start_dim=0, end_dim=-1):
    return t.flatten(start_dim, end_dim)


def sum_(t, dim=None, keepdim=False):
    return t.sum(dim, keepdim)


def mean(t, dim=None, keepdim=False):
    return t.mean(dim, keepdim)


def mul(a, b):
    return a * b


def add(a, b, alpha=1):
    return a + (b * alpha if alpha != 1 else b)


def sub(a, b, alpha=1):
    return a - (b * alpha if alpha != 1 else b)


def div(a, b):
    return a / b


def square(t):
    return t * t


def abs_(t):
    return t.abs()


def unsqueeze(t, dim):
    return t.unsqueeze(dim)


def squeeze(t, dim=None):
    return t.squeeze(dim)
