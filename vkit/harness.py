"""Backend-agnostic harness helpers.

The same harness code runs (a) under python3-vt on the symtorch shim with a
symbolic engine and (b) under /venv/bin/python on the real torch with a
concrete engine (replay of a counter-model).  Values are exchanged as nested
python lists of scalars (SymNum / Fraction on the shim, float on real torch).
"""

from __future__ import annotations

import itertools
from fractions import Fraction

import torch

from vkit import symex

SHIM = getattr(torch, '__version__', '').endswith('symtorch')


_real_log: list = []


def reset_backend():
    """Per-path reset of global shim state."""
    if SHIM:
        import torch.linalg as L
        import torch.serialization as ser
        L.reset()
        ser.reset()
        torch._tensor.FLOAT_MODE[0] = False
    else:
        _real_log.clear()


def install_real_linalg_log():
    """Real torch: log inv/eigh calls like the shim does."""
    if SHIM or getattr(torch.linalg, '_vk_wrapped', False):
        return
    oinv, oeigh = torch.linalg.inv, torch.linalg.eigh

    def inv(a, *k, **kw):
        r = oinv(a, *k, **kw)
        _real_log.append({'fn': 'inv', 'arg': a.detach().clone(), 'out': r.detach().clone()})
        return r

    def eigh(a, *k, **kw):
        r = oeigh(a, *k, **kw)
        _real_log.append({'fn': 'eigh', 'arg': a.detach().clone(),
                          'out': (r[0].detach().clone(), r[1].detach().clone())})
        return r
    torch.linalg.inv, torch.linalg.eigh = inv, eigh
    torch.linalg._vk_wrapped = True


def linalg_log():
    """-> list of {'fn', 'arg': nested list, 'out': nested list(s)}."""
    out = []
    if SHIM:
        import torch.linalg as L
        for c in L.LOG:
            o = c['out']
            out.append({'fn': c['fn'], 'arg': c['arg'].tolist(),
                        'out': tuple(x.tolist() for x in o) if isinstance(o, tuple) else o.tolist(),
                        'how': c.get('how')})
    else:
        for c in _real_log:
            o = c['out']
            out.append({'fn': c['fn'], 'arg': c['arg'].double().tolist(),
                        'out': tuple(x.double().tolist() for x in o) if isinstance(o, tuple)
                        else o.double().tolist()})
    return out


DT = {
    'fp32': lambda: torch.float32,
    'fp16': lambda: torch.float16,
    'bf16': lambda: torch.bfloat16,
    'fp64': lambda: torch.float64,
}


def dtype_of(tag):
    return DT[tag]() if tag is not None else None


def _fill(shape, gen, prefix=()):
    if not shape:
        return gen(prefix)
    return [_fill(shape[1:], gen, prefix + (i,)) for i in range(shape[0])]


def from_list(data, dtype=None):
    """nested list of scalars -> tensor of the active backend."""
    if SHIM:
        import numpy as np
        arr = np.array(data, dtype=object)
        flat = arr.reshape(-1)
        fm = torch._tensor.FLOAT_MODE[0]
        for i in range(flat.size):
            v = flat[i]
            flat[i] = v if isinstance(v, symex.SymNum) else (float(v) if fm else Fraction(symex.lift(v)))
        return torch.Tensor(arr, dtype or torch.get_default_dtype())
    data = _tofloat(data)
    return torch.tensor(data, dtype=dtype or torch.get_default_dtype())


def _tofloat(d):
    if isinstance(d, list):
        return [_tofloat(x) for x in d]
    return float(d)


def sym_list(eng, name, shape, symmetric=False):
    """Fresh symbols (or model values in concrete mode) as a nested list."""
    def gen(idx):
        if symmetric and len(idx) == 2 and idx[0] > idx[1]:
            idx = (idx[1], idx[0])
        return eng.fresh_real(name + '_' + '_'.join(map(str, idx)), data=True)
    return _fill(tuple(shape), gen)


def sym_tensor(eng, name, shape, dtype=None, symmetric=False):
    return from_list(sym_list(eng, name, shape, symmetric), dtype)


def vals(t):
    """tensor -> nested list of scalars."""
    if t is None:
        return None
    if SHIM:
        return t.a.tolist()
    return t.detach().double().tolist()


def flat(x):
    if isinstance(x, list):
        out = []
        for y in x:
            out.extend(flat(y))
        return out
    return [x]


def shape_of(x):
    s = []
    while isinstance(x, list):
        s.append(len(x))
        x = x[0] if x else None
    return tuple(s)


def set_param(p, t):
    """Overwrite a parameter's values (not an in-place op of the code under test)."""
    if SHIM:
        p.a = t.a.copy()
        p._ver = [0]
        p.dtype = t.dtype
    else:
        with torch.no_grad():
            p.data = t.detach().clone()


def fire_forward(module, x):
    for h in list(module._forward_pre_hooks.values()):
        r = h(module, (x,))
        if r is not None:
            return r
    return None


def fire_backward(module, gy):
    for h in list(module._backward_hooks.values()):
        r = h(module, (None,), (gy,))
        if r is not None:
            return r
    return None


def version(t):
    return t._version


def is_contig(t):
    return bool(t.is_contiguous())


def dtype_tag(t):
    return str(t.dtype).replace('torch.', '')
