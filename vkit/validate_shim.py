"""Translator validation of the symtorch shim (runs under /venv/bin/python).

(a) every shim op used by kfac is executed on random rational inputs and
    compared with the real torch (values, shape, dtype tag, contiguity);
(b) kfac's own functions (get_cov, triu packing, module helpers, full
    preconditioner steps for each compute method) are run on the real torch
    here and on the shim in a python3-vt subprocess with the same inputs;
(c) the specification of the linear / conv2d backward pass used by the C15
    harness is checked against the real autograd.
Exit code != 0 on any disagreement.
"""
import importlib.util
import json
import os
import subprocess
import sys
import warnings

ROOT = os.path.dirname(os.path.dirname(os.path.abspath(__file__)))
sys.path.insert(0, ROOT)
warnings.simplefilter('ignore')
TOL = 2e-3


def load_symtorch():
    d = os.path.join(ROOT, 'vkit', 'shim', 'torch')
    spec = importlib.util.spec_from_file_location('symtorch', os.path.join(d, '__init__.py'),
                                                  submodule_search_locations=[d])
    mod = importlib.util.module_from_spec(spec)
    sys.modules['symtorch'] = mod
    spec.loader.exec_module(mod)
    return mod


def compare(a, b, path, errs):
    if isinstance(a, dict) and isinstance(b, dict) and 'v' in a:
        for k in ('shape', 'dtype', 'contig'):
            if a[k] != b[k]:
                errs.append(f'{path}.{k}: torch={a[k]} shim={b[k]}')
        compare(a['v'], b['v'], path + '.v', errs)
    elif isinstance(a, list) and isinstance(b, list):
        if len(a) != len(b):
            errs.append(f'{path}: length torch={len(a)} shim={len(b)}')
            return
        for i, (x, y) in enumerate(zip(a, b)):
            compare(x, y, f'{path}[{i}]', errs)
    elif isinstance(a, (int, float)) and isinstance(b, (int, float)) and not isinstance(a, bool):
        if abs(float(a) - float(b)) > TOL * max(1.0, abs(float(a))):
            errs.append(f'{path}: torch={a} shim={b}')
    elif a != b:
        errs.append(f'{path}: torch={a!r} shim={b!r}')


def autograd_spec(errs):
    """weight.grad of Linear / Conv2d == sum over samples and positions of
    outer(gy row, input patch row); bias.grad == sum of gy rows."""
    import torch
    from vkit import oracle as O
    torch.manual_seed(3)
    for (cin, cout, k, s, p, hh, ww) in [(2, 3, (2, 2), (1, 1), (0, 0), 4, 4), (1, 2, (3, 2), (2, 1), (1, 0), 5, 4),
                                         (2, 2, (2, 3), (1, 2), (0, 1), 5, 6), (2, 1, (1, 1), (2, 2), (1, 1), 3, 4)]:
        conv = torch.nn.Conv2d(cin, cout, k, s, p).double()
        x = torch.randn(2, cin, hh, ww, dtype=torch.float64)
        seen = {}
        conv.register_forward_pre_hook(lambda m, i: seen.__setitem__('x', i[0].detach().clone()))
        conv.register_full_backward_hook(lambda m, gi, go: seen.__setitem__('gy', go[0].detach().clone()))
        y = conv(x)
        gy = torch.randn_like(y)
        (y * gy).sum().backward()
        rows, oh, ow = O.im2col(x.tolist(), k[0], k[1], s[0], s[1], p[0], p[1])
        grows = O.conv_gy_rows(gy.tolist())
        want = O.outer_sum(grows, rows)
        got = conv.weight.grad.reshape(cout, -1).tolist()
        compare(want, got, f'autograd.conv{(cin, cout, k, s, p)}.weight', errs)
        compare([sum(r[o] for r in grows) for o in range(cout)], conv.bias.grad.tolist(), 'autograd.conv.bias', errs)
        compare(x.tolist(), seen['x'].tolist(), 'autograd.hook.x', errs)
        compare(gy.tolist(), seen['gy'].tolist(), 'autograd.hook.gy', errs)
        # hooks returning None do not change outputs / gradients
        conv2 = torch.nn.Conv2d(cin, cout, k, s, p).double()
        conv2.load_state_dict(conv.state_dict())
        y2 = conv2(x)
        (y2 * gy).sum().backward()
        compare(y.tolist(), y2.tolist(), 'autograd.transparent.y', errs)
        compare(conv.weight.grad.tolist(), conv2.weight.grad.tolist(), 'autograd.transparent.grad', errs)
    lin = torch.nn.Linear(3, 2).double()
    x = torch.randn(2, 4, 3, dtype=torch.float64)
    y = lin(x)
    gy = torch.randn_like(y)
    (y * gy).sum().backward()
    want = O.outer_sum(gy.reshape(-1, 2).tolist(), x.reshape(-1, 3).tolist())
    compare(want, lin.weight.grad.tolist(), 'autograd.linear.weight', errs)


def main():
    import torch
    from vkit import vs_scenarios as S
    errs = []
    sym = load_symtorch()
    n = 0
    for seed in range(4):
        real = S.op_scenarios(torch, seed)
        shim = S.op_scenarios(sym, seed)
        for k in real:
            compare(real[k], shim[k], f'ops[{seed}].{k}', errs)
            n += 1
    print(f'validate_shim: {n} op groups compared, {len(errs)} disagreements')
    # kfac-level
    import kfac
    K = {'utils': kfac.layers.utils, 'distributed': kfac.distributed, 'modules': kfac.layers.modules,
         'preconditioner': kfac.preconditioner, 'enums': kfac.enums}
    env = dict(os.environ)
    env.pop('PYTHONPATH', None)
    for seed in range(2):
        real = S.kfac_scenarios(torch, K, seed)
        p = subprocess.run(['python3-vt', os.path.join(ROOT, 'vkit', 'validate_shim_sym.py'), str(seed)],
                           capture_output=True, text=True, env=env, timeout=900)
        if p.returncode != 0:
            errs.append('shim side failed: ' + p.stderr[-2000:])
            continue
        shim = json.loads(p.stdout.strip().splitlines()[-1])
        for k in real:
            compare(json.loads(json.dumps(real[k])), shim.get(k), f'kfac[{seed}].{k}', errs)
            n += 1
    print(f'validate_shim: kfac-level scenarios compared, {len(errs)} disagreements so far')
    autograd_spec(errs)
    for e in errs[:40]:
        print('  DISAGREE', e)
    print('validate_shim:', 'OK' if not errs else f'{len(errs)} DISAGREEMENTS')
    return 1 if errs else 0


if __name__ == '__main__':
    sys.exit(main())
