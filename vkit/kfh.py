"""K-FAC harness helpers shared by the property checks (backend-agnostic):
model construction, symbolic batches, hook driving, the reference K-FAC state
machine (kfac_ref) and the multi-rank runner (simulator / real gloo)."""

from __future__ import annotations

import os
import time

import torch

from vkit import harness as H
from vkit import oracle as O
from vkit import symex
from fractions import Fraction

ONE = Fraction(1)   # exact constant: python's int / int would produce a float

# ----------------------------------------------------------------- models
# layer spec: ('linear', in, out, bias) | ('conv', cin, cout, (kh,kw), (sh,sw), (ph,pw), bias, H, W)


def build_layer(spec, dtype=None):
    if spec[0] == 'linear':
        m = torch.nn.Linear(spec[1], spec[2], bias=spec[3])
    else:
        m = torch.nn.Conv2d(spec[1], spec[2], tuple(spec[3]), tuple(spec[4]), tuple(spec[5]), bias=spec[6])
    return m


def build_model(specs):
    mods = [build_layer(s) for s in specs]
    return torch.nn.Sequential(*mods), mods


def has_bias(spec):
    return spec[3] if spec[0] == 'linear' else spec[6]


def conv_out(spec):
    (kh, kw), (sh, sw), (ph, pw), hh, ww = spec[3], spec[4], spec[5], spec[7], spec[8]
    return O.conv_out_size(hh, kh, sh, ph), O.conv_out_size(ww, kw, sw, pw)


def a_dim(spec):
    if spec[0] == 'linear':
        return spec[1] + int(spec[3])
    return spec[1] * spec[3][0] * spec[3][1] + int(spec[6])


def g_dim(spec):
    return spec[2]


def x_shape(spec, batch, extra=()):
    if spec[0] == 'linear':
        return (batch,) + tuple(extra) + (spec[1],)
    return (batch, spec[1], spec[7], spec[8])


def gy_shape(spec, batch, extra=()):
    if spec[0] == 'linear':
        return (batch,) + tuple(extra) + (spec[2],)
    oh, ow = conv_out(spec)
    return (batch, spec[2], oh, ow)


def grad_shapes(spec):
    if spec[0] == 'linear':
        return (spec[2], spec[1]), (spec[2],)
    return (spec[2], spec[1], spec[3][0], spec[3][1]), (spec[2],)


def sym_batch(eng, tag, spec, batch, extra=()):
    x = H.sym_list(eng, f'x{tag}', x_shape(spec, batch, extra))
    gy = H.sym_list(eng, f'gy{tag}', gy_shape(spec, batch, extra))
    return x, gy


def feed(module, x_list, gy_list, dtype=None):
    """Drive the registered forward-pre / full-backward hooks."""
    x = H.from_list(x_list, dtype)
    gy = H.from_list(gy_list, dtype)
    r1 = H.fire_forward(module, x)
    r2 = H.fire_backward(module, gy)
    return x, gy, r1, r2


def set_grads(module, spec, dw, db, dtype=None):
    if not H.SHIM:
        dtype = module.weight.dtype  # real torch insists on grad dtype == param dtype
    module.weight.grad = H.from_list(dw, dtype)
    if has_bias(spec):
        module.bias.grad = H.from_list(db, dtype)


def sym_grads(eng, tag, spec):
    ws, bs = grad_shapes(spec)
    dw = H.sym_list(eng, f'dw{tag}', ws)
    db = H.sym_list(eng, f'db{tag}', bs) if has_bias(spec) else None
    return dw, db


def combined(spec, dw, db):
    """(weight|bias) gradient as an out x (in[+1]) nested list."""
    rows = []
    for o in range(len(dw)):
        r = H.flat(dw[o])
        if has_bias(spec):
            r = r + [db[o]]
        rows.append(r)
    return rows


def get_combined(module, spec):
    dw = H.vals(module.weight.grad)
    db = H.vals(module.bias.grad) if has_bias(spec) else None
    return combined(spec, dw, db)


# ----------------------------------------------------------------- reference
def a_rows(spec, x):
    """rows whose second moment is the batch A statistic."""
    if spec[0] == 'linear':
        rows = _rows2d(x, spec[1])
        if spec[3]:
            rows = [r + [ONE] for r in rows]
        return rows
    (kh, kw), (sh, sw), (ph, pw) = spec[3], spec[4], spec[5]
    rows, oh, ow = O.im2col(x, kh, kw, sh, sw, ph, pw)
    if spec[6]:
        rows = [r + [ONE] for r in rows]
    sp = oh * ow
    return [[v / sp for v in r] for r in rows]


def g_rows(spec, gy, scale=None):
    if spec[0] == 'linear':
        rows = _rows2d(gy, spec[2])
    else:
        oh, ow = len(gy[0][0]), len(gy[0][0][0])
        rows = O.conv_gy_rows(gy)
        rows = [[v / (oh * ow) for v in r] for r in rows]
    if scale is not None:
        rows = [[v / scale for v in r] for r in rows]
    return rows


def _rows2d(x, width):
    flat = H.flat(x)
    return [flat[i:i + width] for i in range(0, len(flat), width)]


def mean_mats(mats):
    n = len(mats)
    out = mats[0]
    for m in mats[1:]:
        out = O.add(out, m)
    return [[v / n for v in r] for r in out] if n > 1 else out


def ema(prev, new, alpha, n):
    if prev is None:
        prev = O.eye(n)
    return O.add(O.scale(alpha, prev), O.scale(1 - alpha, new))


class KfacRef:
    """Reference K-FAC state machine (single logical process)."""

    def __init__(self, specs, method='eigen', prediv=False):
        self.specs = specs
        self.method = method
        self.prediv = prediv
        self.A = [None] * len(specs)
        self.G = [None] * len(specs)
        self.so = [None] * len(specs)   # second-order data
        self.steps = 0

    def update_factors(self, li, x_batches, gy_batches, alpha, scale=None):
        """x_batches / gy_batches: one entry per (rank, micro-batch)."""
        spec = self.specs[li]
        ma = mean_mats([O.second_moment(a_rows(spec, x)) for x in x_batches])
        mg = mean_mats([O.second_moment(g_rows(spec, g, scale)) for g in gy_batches])
        self.A[li] = ema(self.A[li], ma, alpha, a_dim(spec))
        self.G[li] = ema(self.G[li], mg, alpha, g_dim(spec))

    def refresh(self, li, damping, dtype=None):
        a, g = self.A[li], self.G[li]
        dt = dtype or torch.float32
        if self.method == 'inverse':
            ai = torch.linalg.inv(H.from_list(O.add_diag(a, damping), dt))
            gi = torch.linalg.inv(H.from_list(O.add_diag(g, damping), dt))
            self.so[li] = ('inverse', H.vals(ai), H.vals(gi))
        else:
            da, qa = torch.linalg.eigh(H.from_list(a, dt))
            dg, qg = torch.linalg.eigh(H.from_list(g, dt))
            self.so[li] = ('eigen', H.vals(da), H.vals(qa), H.vals(dg), H.vals(qg), damping)

    def precondition(self, li, D, damping):
        so = self.so[li]
        if so[0] == 'inverse':
            _, ai, gi = so
            return O.mm(O.mm(gi, D), ai)
        _, da, qa, dg, qg, dmp_refresh = so
        lam = dmp_refresh if self.prediv else damping
        v1 = O.mm(O.mm(O.T(qg), D), qa)
        v2 = [[v1[i][j] / (O.pos(dg[i]) * O.pos(da[j]) + lam) for j in range(len(da))]
              for i in range(len(dg))]
        return O.mm(O.mm(qg, v2), O.T(qa))

    @staticmethod
    def clip_scale(eng, Vs, Ds, lr, kl):
        """nu = min(1, sqrt(kl / |sum <V, D> lr^2|)), 1 when the sum is 0."""
        if kl is None:
            return None
        s = 0
        for V, D in zip(Vs, Ds):
            s = s + O.frob(V, D) * lr ** 2
        if _truth(s == 0):
            return 1
        r = sqrt(eng, kl / O.sabs(s))
        return r if _truth(r < 1) else 1


def _truth(c):
    return bool(c)


def check_clip(eng, name, finals, Vs, Ds, lr, kl, sqrt_calls, abs_calls, info=None, inner=None, zero_path=True):
    """Oblige finals == nu * Vs where nu is the scale the implementation derived,
    after checking that it was derived from kl / |sum <V, D> lr^2|.

    sqrt_calls / abs_calls: the engine log entries made by this rank during
    this step (symbolic mode).  Concrete mode recomputes nu numerically."""
    pairs_fv = [(f, v) for F, V in zip(finals, Vs) for f, v in O.pairs(F, V)]
    if kl is None:
        eng.oblige_all_eq(name, pairs_fv, info)
        return
    if inner is not None:
        s = inner * lr * lr     # inner product supplied by the caller (e.g. over the unsharded layers)
    else:
        s = 0
        for V, D in zip(Vs, Ds):
            s = s + O.frob(V, D)
        s = s * lr * lr
    if eng.concrete is not None:
        import math
        nu = 1.0 if s == 0 else min(1.0, math.sqrt(kl / abs(s)))
        eng.oblige_all_eq(name, [(f, nu * v) for f, v in pairs_fv], info)
        return
    if not sqrt_calls:
        if not zero_path:
            return
        eng.oblige('clip-skipped-only-when-inner-product-is-zero', s == 0, info)
        nu = 1
    else:
        arg, r = sqrt_calls[-1][0], sqrt_calls[-1][1]
        if abs_calls:
            inner, outer = abs_calls[-1][0], abs_calls[-1][1]
            eng.oblige_eq('clip-scale-uses-sum<V,D>*lr^2-of-the-reference', inner, s, info)
            eng.oblige_eq('clip-scale-is-sqrt(kl/|sum|)', arg, kl / outer, info)
        else:
            eng.oblige_eq('clip-scale-uses-sum<V,D>*lr^2-of-the-reference', arg * O.sabs(s), kl, info)
        nu = r if bool(r < 1) else 1   # forced by the path condition
    eng.oblige_all_eq(name, [(f, nu * v) for f, v in pairs_fv], info)


def sqrt(eng, x):
    if isinstance(x, symex.SymNum):
        return eng.sqrt(x)
    import math
    return math.sqrt(x)


# ----------------------------------------------------------------- worlds
class WorldResult:
    def __init__(self):
        self.results = {}
        self.errors = {}
        self.violations = []
        self.events = []
        self.sim = None


def run_world(world, rank_fn, eng, policy="rr", seed=0, preempt=False, timeout=60):
    """Run rank_fn(rank) on `world` ranks.  Shim: simulator threads.  Real
    torch: forked gloo processes (rank_fn must return picklable data)."""
    wr = WorldResult()
    if world == 1 and not os.environ.get('VK_FORCE_DIST'):
        try:
            wr.results[0] = rank_fn(0)
        except Exception as e:  # noqa: BLE001
            wr.errors[0] = e
        return wr
    if H.SHIM:
        import torch.distributed as dist
        sim = dist.Sim(world, policy=policy, seed=seed, preempt=preempt)
        eng.tagger = dist._sim_current_rank
        try:
            sim.run(rank_fn)
        finally:
            eng.tagger = None
        sim.finish_checks()
        wr.results, wr.errors = dict(sim.results), dict(sim.errors)
        wr.violations, wr.events, wr.sim = list(sim.violations), list(sim.events), sim
        return wr
    return _run_gloo(world, rank_fn, wr, timeout)


def _run_gloo(world, rank_fn, wr, timeout):
    import multiprocessing as mp
    import socket
    import traceback
    s = socket.socket()
    s.bind(('', 0))
    port = s.getsockname()[1]
    s.close()
    ctx = mp.get_context('fork')
    q = ctx.Queue()

    def child(rank):
        import torch.distributed as dist
        os.environ.update(MASTER_ADDR='127.0.0.1', MASTER_PORT=str(port), RANK=str(rank),
                          WORLD_SIZE=str(world), LOCAL_RANK=str(rank))
        try:
            dist.init_process_group('gloo')
            res = rank_fn(rank)
            q.put((rank, 'ok', res))
            dist.barrier()
        except BaseException as e:  # noqa: BLE001
            q.put((rank, 'error', f'{type(e).__name__}: {e}\n{traceback.format_exc()[-1500:]}'))
        finally:
            os._exit(0)
    procs = [ctx.Process(target=child, args=(r,)) for r in range(world)]
    for p in procs:
        p.start()
    got = 0
    t0 = time.time()
    while got < world and time.time() - t0 < timeout:
        try:
            rank, st, res = q.get(timeout=1.0)
        except Exception:  # noqa: BLE001
            if any(st == 'error' for st in wr.errors) and time.time() - t0 > 20:
                break
            continue
        got += 1
        if st == 'ok':
            wr.results[rank] = res
        else:
            wr.errors[rank] = RuntimeError(res)
            # peers of a failed rank usually hang: give them a short grace period
            timeout = min(timeout, time.time() - t0 + 15)
    for r, p in enumerate(procs):
        p.join(0.5)
        if p.is_alive():
            p.kill()
            if r not in wr.results and r not in wr.errors:
                wr.violations.append({'kind': 'deadlock', 'rank': r, 'detail': 'rank did not finish (real gloo)'})
    for r, e in wr.errors.items():
        wr.violations.append({'kind': 'rank-error', 'rank': r, 'detail': str(e)[:300]})
    return wr
